"""C05 — marginal model choice: best-KS candidate, filters, per-column config, fallback.

Every case is a JSON-able spec; `real_*` run the implementation on a spec, `judge_*` compare with the model's
answer, `replay_*` are the entry points of the repro snippets.  The model is evaluated inside Coq by vm_compute
of CopRun.C05_eval (`run_select`, `run_fit`, `run_candidates`, `run_walk`, `run_columns`: thin wrappers around
the static Cop.Model.Select, written by this file on every run) so that a concrete failing input is found even
when the translation of the current source (tools/vf/selectfacts.py) or a proof of coq/Props/C05.v breaks;
Props/C05.v proves the wrappers equal to the definitions GENERATED from the current source.
"""
COQCHK = ['C05']   # cones without Coquelicot / Interval: coqchk -o re-checks them in about a minute each (thorough tier)
import json
import re
from fractions import Fraction

import numpy as np

from .. import cases, selectfacts as SF

REAL = ['BetaUnivariate', 'GammaUnivariate', 'GaussianUnivariate', 'GaussianKDE', 'LogLaplace', 'StudentTUnivariate',
        'TruncatedGaussian', 'UniformUnivariate']
EXC = {'ValueError': ValueError, 'RuntimeError': RuntimeError, 'ZeroDivisionError': ZeroDivisionError, 'TypeError': TypeError,
       'LinAlgError': np.linalg.LinAlgError, 'KeyError': KeyError, 'FloatingPointError': FloatingPointError,
       'AttributeError': AttributeError}
IMPORTS = 'From Cop Require Import Model.Select.\nFrom CopRun Require Import C05_eval.'
EVAL_V = '''(* written by tools/vf/props/C05.py on every run (fixed text): evaluation wrappers around the STATIC model
   Cop.Model.Select.  The correspondence cases evaluate these, so a concrete disagreement is found even when the
   translation of the current source or a proof in Props/C05.v no longer goes through; Props/C05.v proves that
   they coincide with the GENERATED definitions (C05_eval_select, C05_eval_fit, C05_eval_candidates,
   C05_eval_columns, C05_tree_is_repo_tree).
   Candidates, column labels, columns and distributions are positions in tables; dist 0 = what the name
   "Univariate" denotes in gaussian.py, dist 1 = "GaussianUnivariate", dist 2 = any other name (never instantiable). *)
From Coq Require Import List Bool QArith ZArith String.
From Cop Require Import Model.Select.
Import ListNotations.

Definition uname_str (n : uname) : string :=
  match n with
  | Univariate => "Univariate" | ScipyModel => "ScipyModel" | BetaUnivariate => "BetaUnivariate"
  | GammaUnivariate => "GammaUnivariate" | GaussianUnivariate => "GaussianUnivariate"
  | GaussianKDE => "GaussianKDE" | LogLaplace => "LogLaplace" | StudentTUnivariate => "StudentTUnivariate"
  | TruncatedGaussian => "TruncatedGaussian" | UniformUnivariate => "UniformUnivariate"
  end%string.
Fixpoint map_ctree {A B} (f : A -> B) (t : ctree A) : ctree B :=
  match t with
  | CNode i subs => CNode (Build_class_info (f (cname i)) (cparam i) (cbound i) (cabc i)) (map (map_ctree f) subs)
  end.
Definition ref_tree : ctree string := map_ctree uname_str repo_tree.

Definition oc_fun (l : list outcome) (m : nat) : outcome := nth m l Raised.
Definition run_select (l : list outcome) : pyobj nat :=
  get_instance_opt nat (select_best4 nat (oc_fun l) (seq 0 (List.length l))).
Definition run_fit (l : list outcome) (refits : list bool) : fit_result nat :=
  univariate_fit nat (fun m => ks_of (oc_fun l m)) (fun m => nth m refits false) (seq 0 (List.length l)).
Definition run_candidates (e : option (list string)) p b : list string := init_candidates string e p b ref_tree.
Definition run_walk p b (t : ctree string) : list string := select_candidates string p b t.
Definition cls_of (s : string) : nat :=
  if String.eqb s "GaussianUnivariate" then 1%nat else if String.eqb s "Univariate" then 0%nat else 2%nat.
Definition run_columns (inst : list bool) (fits : list (list bool)) (cfg : dist_config nat nat)
           (items : list (nat * nat)) :=
  fit_columns nat nat (nat * nat)%type nat Nat.eqb 0%nat 1%nat (fun d => nth d inst false)
    (fun d c => if nth c (nth d fits []) false then Some (d, c) else None) cfg items.
'''
SCOPE = 'Open Scope string_scope.\nOpen Scope nat_scope.\n'


# ===================================================================== candidates (JSON spec -> object)
_STUBS = {}


def stub_class(d):
    """a duck-typed candidate (NOT a Univariate subclass, so Univariate.__subclasses__() stays untouched)"""
    key = json.dumps(d, sort_keys=True)
    if key in _STUBS:
        return _STUBS[key]

    class Stub:
        SPEC = d
        KS = d.get('ks', 0.5)

        def __init__(self, *args, **kwargs):
            self.init_args = (args, kwargs)
            self.fitted = False
            if d.get('init'):
                raise EXC[d['init']]('stub __init__')

        def fit(self, X):
            if d.get('fit'):
                raise EXC[d['fit']]('stub fit')
            if d.get('limit') is not None and len(X) > d['limit']:
                raise ValueError('stub fit: too many rows')
            self.fitted = True
            self.n = len(X)

        def cdf(self, X):
            if d.get('cdf'):
                raise EXC[d['cdf']]('stub cdf')
            X = np.asarray(X, dtype=float)
            return np.clip((X - d.get('lo', -3.0)) / (d.get('hi', 3.0) - d.get('lo', -3.0)), 0, 1)

        def to_dict(self):
            return {'type': 'stub', 'id': d.get('id')}
    Stub.__name__ = Stub.__qualname__ = f'Stub{d.get("id", "")}'
    _STUBS[key] = Stub
    return Stub


def real_class(name):
    import copulas.univariate as cu
    from copulas.univariate.base import Univariate
    return Univariate if name == 'Univariate' else getattr(cu, name)


def enum_of(kind, v):
    from copulas.univariate.base import BoundedType, ParametricType
    return None if v is None else getattr({'p': ParametricType, 'b': BoundedType}[kind], v)


def build(spec):
    """['cls', name] | ['name', qualified] | ['proto', name, kwargs] | ['stub', d] | ['stubproto', d] | ['univ', kwargs]"""
    from copulas.utils import get_qualified_name
    k = spec[0]
    if k == 'cls':
        return real_class(spec[1])
    if k == 'name':
        return spec[1] if '.' in spec[1] and not spec[1].startswith('@') else get_qualified_name(real_class(spec[1].lstrip('@')))
    if k == 'proto':
        return real_class(spec[1])(**spec[2])
    if k == 'univ':
        kw = dict(spec[1])
        if 'candidates' in kw:
            kw['candidates'] = [build(c) for c in kw['candidates']]
        kw['parametric'] = enum_of('p', kw.get('parametric'))
        kw['bounded'] = enum_of('b', kw.get('bounded'))
        return real_class('Univariate')(**kw)
    if k == 'stub':
        return stub_class(spec[1])
    if k == 'stubproto':
        c = stub_class({**spec[1], 'init': None})
        return c()
    raise ValueError(spec)


def expected_class(spec):
    """class of the instance get_instance(build(spec)) must produce"""
    k = spec[0]
    if k in ('cls', 'proto'):
        return real_class(spec[1])
    if k == 'name':
        try:
            return real_class(spec[1].lstrip('@').rsplit('.', 1)[-1])
        except AttributeError:
            return None                     # a name that does not resolve
    if k == 'univ':
        return real_class('Univariate')
    if k == 'stub':
        return stub_class(spec[1])
    return stub_class({**spec[1], 'init': None})


def data_of(d):
    if 'values' in d:
        return np.array([float('nan') if v is None else v for v in d['values']], dtype=float)
    rs = np.random.RandomState(d['seed'])
    n = d['n']
    kind = d['kind']
    if kind == 'normal':
        x = rs.normal(d.get('loc', 0.0), d.get('scale', 1.0), n)
    elif kind == 'gamma':
        x = rs.gamma(d.get('a', 2.0), size=n)
    elif kind == 'beta':
        x = rs.beta(d.get('a', 2.0), d.get('b', 5.0), size=n)
    elif kind == 'uniform':
        x = rs.uniform(d.get('lo', 0.0), d.get('hi', 1.0), n)
    elif kind == 'lognormal':
        x = rs.lognormal(size=n)
    elif kind == 'student':
        x = rs.standard_t(3, size=n)
    elif kind == 'ints':
        x = rs.randint(0, d.get('k', 4), size=n).astype(float)
    elif kind == 'long-uniform':      # a very long column (size extreme: no chunked / subsampled statistic may change the choice)
        x = rs.uniform(d.get('lo', 2.0), d.get('hi', 5.0), n)
    elif kind == 'rounded':          # heavy ties: a continuous law rounded to a grid (counts, prices, rounded measurements)
        x = np.round(rs.gamma(d.get('a', 2.0), d.get('scale', 2.0), size=n) if d.get('law', 'gamma') == 'gamma'
                     else rs.normal(d.get('loc', 5.0), d.get('scale', 2.0), n), d.get('decimals', 0))
    elif kind == 'const':
        x = np.full(n, d.get('c', 3.0))
    elif kind == 'bimodal':
        x = np.concatenate([rs.normal(-3, 0.5, n // 2), rs.normal(3, 0.5, n - n // 2)])
    else:
        raise ValueError(kind)
    if d.get('nan'):
        x[d['nan'] % n] = np.nan
    return x


# ===================================================================== running the implementation
def ks_value(v):
    """scripted statistic -> float"""
    return {'nan': float('nan'), 'inf': float('inf')}.get(v, v)


def fake_kstest(X, cdf, *a, **k):
    owner = getattr(cdf, '__self__', None)
    v = type(owner).KS
    if v == 'raise':
        raise ValueError('scripted kstest failure')
    cdf(X)
    v = ks_value(v)
    return (np.float64(v) if type(owner).SPEC.get('np', True) else float(v)), 0.5


def run_recorded(fn, candidates, inject):
    """run fn() with selection.get_instance / selection.kstest wrapped; returns (events, created, outcome)"""
    import copulas.univariate.selection as sel
    events, created = [], []
    orig_gi, orig_ks = sel.get_instance, sel.kstest

    def gi(obj, **kw):
        events.append(('get', obj))
        inst = orig_gi(obj, **kw)
        created.append(inst)
        return inst

    def ks(X_, cdf, *a, **k):
        r = (fake_kstest if inject else orig_ks)(X_, cdf, *a, **k)
        events.append(('ks', float(r[0])))
        return r
    sel.get_instance, sel.kstest = gi, ks
    saved = np.random.get_state()
    try:
        with np.errstate(all='ignore'):
            try:
                out = ('ret', fn())
            except Exception as e:
                out = ('exc', e)
    finally:
        sel.get_instance, sel.kstest = orig_gi, orig_ks
        np.random.set_state(saved)
    return events, created, out


def outcomes_of(events, candidates):
    """per-position outcomes from the call trace; None if the trace does not have the loop's shape"""
    pos, res, i = [], None, 0
    n = len(candidates)
    gets = [j for j, e in enumerate(events) if e[0] == 'get']
    if len(gets) != n + 1:
        return None, None
    for p in range(n):
        if events[gets[p]][1] is not candidates[p]:
            return None, None
        seg = events[gets[p] + 1: gets[p + 1]]
        if len(seg) > 1:
            return None, None
        pos.append(seg[0][1] if seg else None)
    if events[gets[n] + 1:]:
        return None, None
    return pos, events[gets[n]][1]


def oc_coq(v):
    if v is None:
        return 'Raised'
    if v != v:
        return 'KsNaN'
    if v == float('inf'):
        return 'KsInf'
    f = Fraction(v)
    return f'(Ks ({f.numerator} # {f.denominator}))' if f >= 0 else f'(Ks (-({-f.numerator} # {f.denominator})))'


def oc_json(v):
    return None if v is None else ('nan' if v != v else ('inf' if v == float('inf') else v))


def real_select(spec):
    """spec: {data, candidates, inject} -> dict(outcomes, final_pos_ok(idx) ...) on the real select_univariate"""
    import copulas.univariate.selection as sel
    X = data_of(spec['data'])
    cands = [build(c) for c in spec['candidates']]
    events, created, out = run_recorded(lambda: sel.select_univariate(X, cands), cands, spec.get('inject', False))
    pos, final = outcomes_of(events, cands)
    return {'X': X, 'cands': cands, 'outcomes': pos, 'final': final, 'out': out, 'created': created}


def judge_select(spec, r, model):
    """model: None (PyNone) or index.  Returns list of disagreements (strings)."""
    bad = []
    if r['outcomes'] is None:
        return ['call trace of select_univariate does not have the shape get_instance(c_i) [kstest] ... get_instance(best)']
    kind, val = r['out']
    if kind == 'exc':
        return [f'select_univariate raised {type(val).__name__}: {val}; model returns {model}']
    if model is None:
        if r['final'] is not None or val is not None:
            bad.append(f'model: no candidate selected (returns None); implementation returned {type(val).__name__}')
    else:
        c = r['cands'][model]
        if r['final'] is not c:
            which = next((i for i, x in enumerate(r['cands']) if x is r['final']), None)
            bad.append(f'model selects position {model}; implementation selected position {which}')
        elif type(val) is not expected_class(spec['candidates'][model]):
            bad.append(f'returned object is a {type(val).__name__}, expected an instance of {expected_class(spec["candidates"][model]).__name__}')
        else:
            # fresh: the object created by the last get_instance call, not one fitted in the loop, not the prototype
            if val is not r['created'][-1] or any(val is x for x in r['created'][:-1]) or val is c:
                bad.append('returned object is not a fresh instance')
            if getattr(val, 'fitted', False):
                bad.append('returned instance is already fitted')
    return bad


def real_fit(spec):
    """Univariate(candidates=..., selection_sample_size=...).fit(X)"""
    from copulas.univariate.base import Univariate
    X = data_of(spec['data'])
    cands = [build(c) for c in spec['candidates']]
    u = Univariate(candidates=list(cands), selection_sample_size=spec.get('sss'))
    cands = u.candidates        # identity of the objects the loop sees
    events, created, out = run_recorded(lambda: u.fit(X), cands, spec.get('inject', False))
    pos, final = outcomes_of(events, cands)
    # independent refit oracle: does a fresh instance of each candidate fit the FULL data?
    from copulas.utils import get_instance
    refits = []
    for c, o in zip(cands, pos or []):
        if o is None or o != o or o == float('inf'):
            refits.append(False)        # never consulted
            continue
        try:
            with np.errstate(all='ignore'):
                get_instance(c).fit(X)
            refits.append(True)
        except Exception:
            refits.append(False)
    return {'X': X, 'cands': cands, 'outcomes': pos, 'final': final, 'out': out, 'u': u, 'refits': refits}


def parse_fit(s):
    m = re.match(r'FitOk (\d+)', s or '')
    if m:
        return ('ok', int(m.group(1)))
    m = re.match(r'FitErr (\w+)', s or '')
    return ('err', m.group(1)) if m else ('unparsed', s)


def judge_fit(spec, r, model):
    if r['outcomes'] is None:
        return ['call trace of Univariate.fit/select_univariate does not have the expected shape']
    kind, val = r['out']
    u = r['u']
    if model[0] == 'ok':
        c = r['cands'][model[1]]
        if kind == 'exc':
            return [f'model: fit succeeds with candidate {model[1]}; implementation raised {type(val).__name__}: {val}']
        bad = []
        if r['final'] is not c:
            which = next((i for i, x in enumerate(r['cands']) if x is r['final']), None)
            bad.append(f'model selects position {model[1]}; implementation selected position {which}')
        if type(u._instance) is not expected_class(spec['candidates'][model[1]]):
            bad.append(f'_instance is a {type(u._instance).__name__}, expected {expected_class(spec["candidates"][model[1]]).__name__}')
        if not u.fitted or not getattr(u._instance, 'fitted', False):
            bad.append('fit returned but fitted flag is not set')
        if getattr(u._instance, 'n', len(r['X'])) != len(r['X']):
            bad.append(f'the selected instance was fitted on {u._instance.n} rows, the data has {len(r["X"])}')
        return bad
    if kind != 'exc':
        return [f'model: fit raises ({model[1]}); implementation returned normally with {type(u._instance).__name__}']
    bad = []
    if u.fitted:
        bad.append('fit raised but self.fitted is True')
    if model[1] == 'AttributeError_NoneType_fit':
        if not (isinstance(val, AttributeError) and u._instance is None and 'NoneType' in str(val)):
            bad.append(f'model: AttributeError on None.fit; implementation raised {type(val).__name__}: {val}')
    elif model[1] == 'RefitRaised':
        if u._instance is None:
            bad.append(f'model: the final fit of the selected instance raises; implementation selected nothing ({type(val).__name__})')
    else:
        bad.append(f'unparsed model output {model}')
    return bad


# ----------------------------------------------------------------- candidate enumeration
def real_candidates(spec):
    """{explicit: None | [cand specs], p, b} -> names of Univariate(...).candidates (and of _select_candidates)"""
    from copulas.univariate.base import Univariate
    p, b = enum_of('p', spec['p']), enum_of('b', spec['b'])
    kw = {}
    if spec['explicit'] is not None:
        kw['candidates'] = [build(c) for c in spec['explicit']]
    u = Univariate(parametric=p, bounded=b, **kw)
    return [cand_name(c) for c in u.candidates], [c.__name__ for c in Univariate._select_candidates(p, b)]


def cand_name(c):
    return c if isinstance(c, str) else (c.__name__ if isinstance(c, type) else 'instance:' + type(c).__name__)


def coq_opt(v):
    return 'None' if v is None else f'(Some {v})'


def strs(s):
    return re.findall(r'"([^"]*)"', s or '')


def real_synth_tree(spec):
    """random class tree driven through the REAL Univariate._select_candidates code"""
    from abc import ABC
    from copulas.univariate.base import Univariate
    sc = Univariate.__dict__['_select_candidates']
    nodes = {}
    for nd in spec['nodes']:
        attrs = {}
        if nd['param']:
            attrs['PARAMETRIC'] = enum_of('p', nd['param'])
        if nd['bound']:
            attrs['BOUNDED'] = enum_of('b', nd['bound'])
        if nd['parent'] is None:
            attrs['_select_candidates'] = sc
            bases = (object,)
        else:
            bases = (nodes[nd['parent']],)
        if nd['abc']:
            bases = bases + (ABC,)
        nodes[nd['id']] = type(f'K{nd["id"]}', bases, attrs)
    root = nodes[spec['nodes'][0]['id']]
    got = root._select_candidates(enum_of('p', spec['p']), enum_of('b', spec['b']))
    eff = {i: (c.PARAMETRIC.name, c.BOUNDED.name) for i, c in nodes.items()}
    return [c.__name__ for c in got], eff


def synth_tree_coq(spec, eff):
    kids = {}
    for nd in spec['nodes']:
        kids.setdefault(nd['parent'], []).append(nd)

    def node(nd):
        p, b = eff[nd['id']]
        return (f'CNode (Build_class_info "K{nd["id"]}" {p} {b} {"true" if nd["abc"] else "false"}) '
                f'[{"; ".join(node(k) for k in kids.get(nd["id"], []))}]')
    return node(spec['nodes'][0])


# ----------------------------------------------------------------- GaussianMultivariate columns
def dist_obj(spec):
    k = spec[0]
    if k == 'bad':
        return spec[1]
    return build(spec)


def dist_expected_class(spec):
    return None if spec[0] == 'bad' else expected_class(spec)


def frame_of(spec):
    import pandas as pd
    cols = {}
    for lab, d in spec['columns']:
        if d.get('strings'):
            cols[lab] = ['x', 'y', 'z', 'w'] * (d['n'] // 4) + ['x'] * (d['n'] % 4)
        else:
            cols[lab] = data_of(d)
    return pd.DataFrame(cols)


def config_of(spec):
    c = spec['config']
    if c[0] == 'single':
        return dist_obj(spec['dists'][c[1]])
    if c[0] == 'default':
        return None
    return {lab: dist_obj(spec['dists'][i]) for lab, i in c[1]}


def real_columns(spec):
    """GaussianMultivariate(distribution=config).fit(frame) (or ._fit_columns when spec['only_columns'])"""
    import copulas.multivariate.gaussian as G
    X = frame_of(spec)
    cfg = config_of(spec)
    gm = G.GaussianMultivariate() if cfg is None else G.GaussianMultivariate(distribution=cfg)
    fb = []
    orig = G.GaussianMultivariate._fit_with_fallback_distribution

    def rec(self, column, distribution, column_name, error):
        fb.append(column_name)
        return orig(self, column, distribution, column_name, error)
    G.GaussianMultivariate._fit_with_fallback_distribution = rec
    saved = np.random.get_state()
    try:
        with np.errstate(all='ignore'):
            try:
                if spec.get('only_columns'):
                    columns, univariates = gm._fit_columns(X)
                else:
                    gm.fit(X)
                    columns, univariates = gm.columns, gm.univariates
                out = ('ok', list(columns), list(univariates))
            except Exception as e:
                out = ('exc', type(e).__name__, str(e)[:100])
    finally:
        G.GaussianMultivariate._fit_with_fallback_distribution = orig
        np.random.set_state(saved)
    return {'X': X, 'cfg': cfg, 'gm': gm, 'fallbacks': fb, 'out': out}


def column_oracles(spec, X):
    """independent oracles: instantiable d, fit_dist d column (fresh get_instance(d).fit(column))"""
    from copulas.univariate import GaussianUnivariate, Univariate
    from copulas.utils import get_instance
    table = [Univariate, GaussianUnivariate, None] + [dist_obj(d) for d in spec['dists']]
    inst, fits, fitted = [], [], {}
    for di, d in enumerate(table):
        ok = False
        if di != 2:
            try:
                get_instance(d)
                ok = True
            except Exception:
                ok = False
        inst.append(ok)
        row = []
        for ci, (lab, _) in enumerate(spec['columns']):
            good = False
            if ok and (di < 2 or di - 3 in spec['used'].get(str(ci), [])):
                try:
                    with np.errstate(all='ignore'):
                        u = get_instance(d)
                        u.fit(X[lab])
                    good = True
                    fitted[(di, ci)] = u
                except Exception:
                    good = False
            row.append(good)
        fits.append(row)
    return table, inst, fits, fitted


def columns_coq(spec, inst, fits):
    labs = [lab for lab, _ in spec['columns']]
    extra = []
    c = spec['config']

    def lab_idx(lab):
        if lab in labs:
            return labs.index(lab)
        if lab not in extra:
            extra.append(lab)
        return len(labs) + extra.index(lab)
    if c[0] == 'single':
        cfg = f'(Single {c[1] + 3})'
    elif c[0] == 'default':
        cfg = '(Single 0)'
    else:
        cfg = '(PerColumn [' + '; '.join(f'({lab_idx(lab)}, {i + 3})' for lab, i in c[1]) + '])'
    b = lambda v: 'true' if v else 'false'
    items = '[' + '; '.join(f'({i}, {i})' for i in range(len(labs))) + ']'
    return (f'run_columns [{"; ".join(b(v) for v in inst)}] [{"; ".join("[" + "; ".join(b(v) for v in r) + "]" for r in fits)}] '
            f'{cfg} {items}')


def parse_columns(s):
    if s is None:
        return None
    s = s.replace('%nat', '')
    m = re.match(r'inr (\w+)', s)
    if m:
        return ('err', m.group(1))
    m = re.match(r'inl \(\[(.*?)\], \[(.*)\]\)$', s)
    if not m:
        return ('unparsed', s)
    cols = [int(x) for x in re.findall(r'\d+', m.group(1))]
    us = [(int(a), int(b)) for a, b in re.findall(r'\((\d+), (\d+)\)', m.group(2))]
    return ('ok', cols, us)


def params_equal(a, b):
    try:
        da, db = a.to_dict(), b.to_dict()
    except Exception as e:
        return False, f'to_dict raised {type(e).__name__}'
    if set(da) != set(db):
        return False, f'keys {sorted(da)} vs {sorted(db)}'
    for k in da:
        x, y = da[k], db[k]
        if isinstance(x, (int, float, np.floating, np.integer)) and isinstance(y, (int, float, np.floating, np.integer)):
            if not (x == y or (x != x and y != y) or abs(x - y) <= 1e-9 * (1 + abs(y))):
                return False, f'{k}: {x} vs {y}'
        elif isinstance(x, (list, np.ndarray)):
            if not np.allclose(np.asarray(x, dtype=float), np.asarray(y, dtype=float), rtol=1e-9, atol=0, equal_nan=True):
                return False, f'{k} differs'
        elif x != y:
            return False, f'{k}: {x!r} vs {y!r}'
    return True, ''


def invalid_frame(spec):
    """GaussianMultivariate.fit is decorated with @check_valid_values: NaN / non-numeric tables are refused before _fit_columns"""
    return any(d.get('strings') or d.get('nan') or any(v is None for v in d.get('values', [])) for _, d in spec['columns'])


def judge_columns(spec, r, table, fitted, model):
    labs = [lab for lab, _ in spec['columns']]
    out = r['out']
    if invalid_frame(spec) and not spec.get('only_columns'):
        if out[0] != 'exc' or out[1] != 'ValueError' or r['fallbacks']:
            return [f'a table with NaN / non-numeric values must be refused with ValueError before any column is fitted; got {out[:2]}']
        return []
    if model[0] == 'err':
        if out[0] != 'exc':
            return [f'model: fit raises ({model[1]}); implementation returned normally']
        return []
    if model[0] != 'ok':
        return [f'unparsed model output {model}']
    if out[0] == 'exc':
        return [f'model: fit succeeds; implementation raised {out[1]}: {out[2]}']
    bad = []
    _, cols, us = out
    if cols != [labs[i] for i in model[1]]:
        bad.append(f'columns {cols} vs model {[labs[i] for i in model[1]]}')
    if len(us) != len(model[2]):
        return bad + [f'{len(us)} univariates vs model {len(model[2])}']
    for j, ((di, ci), u) in enumerate(zip(model[2], us)):
        want = table[di] if di < 2 else None
        wcls = want if di < 2 else dist_expected_class(spec['dists'][di - 3])
        if type(u) is not wcls:
            bad.append(f'column {labs[j]!r}: modelled by {type(u).__name__}, model says {wcls.__name__}'
                       f'{" (Gaussian fallback)" if di == 1 else ""}')
            continue
        used_fb = labs[j] in r['fallbacks']
        if used_fb != (di == 1):
            bad.append(f'column {labs[j]!r}: fallback used = {used_fb}, model says {di == 1}')
        if not getattr(u, 'fitted', False):
            bad.append(f'column {labs[j]!r}: univariate is not fitted')
        ref = fitted.get((di, ci))
        if ref is not None and hasattr(u, 'to_dict') and not spec.get('nondeterministic'):
            same, why = params_equal(u, ref)
            if not same:
                bad.append(f'column {labs[j]!r}: parameters differ from an independent fit of the same distribution on this column ({why})')
        if di >= 3:
            proto = table[di]
            if not isinstance(proto, (str, type)):
                if u is proto:
                    bad.append(f'column {labs[j]!r}: the prototype object itself was fitted (no fresh instance)')
                if getattr(proto, 'fitted', False):
                    bad.append(f'column {labs[j]!r}: the prototype was fitted')
    if len({id(u) for u in us}) != len(us):
        bad.append('the same univariate object is used for two columns')
    return bad


# ===================================================================== replay entry points (used by repro snippets)
def replay_select(spec, expected):
    r = real_select(spec)
    bad = judge_select(spec, r, expected)
    print('outcomes', [oc_json(v) for v in (r['outcomes'] or [])], 'expected', expected, 'disagreements', bad)
    assert not bad, bad


def replay_fit(spec, expected):
    r = real_fit(spec)
    bad = judge_fit(spec, r, tuple(expected))
    print('outcomes', [oc_json(v) for v in (r['outcomes'] or [])], 'refits', r['refits'], 'expected', expected, 'disagreements', bad)
    assert not bad, bad


def replay_synth(spec, expected):
    got, _ = real_synth_tree(spec)
    print('implementation', got, 'expected', expected)
    assert got == expected


def replay_columns(spec, expected):
    r = real_columns(spec)
    table, inst, fits, fitted = column_oracles(spec, r['X'])
    bad = judge_columns(spec, r, table, fitted, tuple(expected) if expected[0] != 'ok' else ('ok', expected[1], [tuple(x) for x in expected[2]]))
    print('implementation', r['out'][:2], 'fallbacks', r['fallbacks'], 'expected', expected, 'disagreements', bad)
    assert not bad, bad


def replay_oracle(name, spec):
    bad = ORACLES[name](spec)
    print(bad)
    assert not bad, bad


def snippet(fn, *args):
    return ('import json\nfrom vf.props import C05\n' +
            f'C05.{fn}(*json.loads({json.dumps(json.dumps(list(args)))}))\n')


# ===================================================================== generators
DATA_KINDS = ['normal', 'gamma', 'beta', 'uniform', 'lognormal', 'student', 'ints', 'bimodal']


def gen_data(rng, small=False):
    kind = DATA_KINDS[int(rng.integers(0, len(DATA_KINDS)))]
    d = {'kind': kind, 'seed': int(rng.integers(0, 10 ** 6)), 'n': int(rng.integers(12, 40 if small else 90))}
    if kind == 'normal':
        d['loc'], d['scale'] = float(rng.choice([0.0, 5.0, -100.0, 1e4])), float(rng.choice([1.0, 0.01, 30.0]))
    return d


def gen_stub(rng, i, allow_limit=None):
    r = rng.random()
    d = {'id': i, 'np': bool(rng.random() < 0.7)}
    if r < 0.08:
        d['init'] = str(rng.choice(['ValueError', 'RuntimeError', 'TypeError']))
    elif r < 0.20:
        d['fit'] = str(rng.choice(['ValueError', 'RuntimeError', 'ZeroDivisionError', 'LinAlgError', 'KeyError', 'AttributeError']))
    elif r < 0.25:
        d['cdf'] = str(rng.choice(['ValueError', 'FloatingPointError']))
    ks = rng.choice(['0.0', '0.125', '0.25', '0.25', '0.3', '0.5', '0.5', '1.0', 'nan', 'inf', 'raise', 'rand'])
    d['ks'] = float(rng.random()) if ks == 'rand' else (str(ks) if ks in ('nan', 'inf', 'raise') else float(ks))
    if allow_limit is not None and rng.random() < 0.3:
        d['limit'] = int(allow_limit)
    return d


def gen_inject_cands(rng, limit=None):
    n = int(rng.integers(0, 8))
    if rng.random() < 0.12:
        # every candidate fails
        out = []
        for i in range(max(n, 1)):
            d = gen_stub(rng, i)
            if not (d.get('init') or d.get('fit') or d.get('cdf')):
                d['ks'] = str(rng.choice(['nan', 'inf', 'raise']))
            out.append(['stub', d])
        return out
    pool = [gen_stub(rng, i, limit) for i in range(max(n, 1))]
    out = []
    for i in range(n):
        d = pool[int(rng.integers(0, len(pool)))] if rng.random() < 0.15 else pool[i]       # occasional duplicates
        out.append(['stubproto' if (rng.random() < 0.2 and not d.get('init')) else 'stub', d])
    return out


def gen_real_cands(rng):
    k = int(rng.integers(1, 6))
    names = [REAL[i] for i in rng.choice(len(REAL), size=k, replace=bool(rng.random() < 0.2))]
    out = []
    for nm in names:
        r = rng.random()
        if r < 0.6:
            out.append(['cls', nm])
        elif r < 0.8:
            out.append(['name', '@' + nm])
        elif nm == 'GaussianKDE':
            out.append(['proto', nm, {'bw_method': float(rng.choice([0.2, 0.5, 1.5]))}])
        elif nm == 'TruncatedGaussian':
            out.append(['proto', nm, {'minimum': -1e3, 'maximum': 1e3}])
        else:
            out.append(['proto', nm, {}])
    # harness candidates that cannot be fitted
    for _ in range(int(rng.integers(0, 3))):
        d = {'id': 90 + len(out), 'fit': 'ValueError'} if rng.random() < 0.6 else {'id': 90 + len(out), 'init': 'RuntimeError'}
        out.insert(int(rng.integers(0, len(out) + 1)), ['stub', d])
    if rng.random() < 0.15:
        out.insert(int(rng.integers(0, len(out) + 1)), ['name', 'copulas.univariate.nosuchmodule.Nope'])
    return out


def gen_tree_spec(rng):
    n = int(rng.integers(1, 9))
    nodes = [{'id': 0, 'parent': None, 'abc': False, 'param': 'NON_PARAMETRIC', 'bound': 'UNBOUNDED'}]
    for i in range(1, n + 1):
        nodes.append({'id': i, 'parent': int(rng.integers(0, i)), 'abc': bool(rng.random() < 0.25),
                      'param': [None, 'PARAMETRIC', 'NON_PARAMETRIC'][int(rng.integers(0, 3))],
                      'bound': [None, 'UNBOUNDED', 'SEMI_BOUNDED', 'BOUNDED'][int(rng.integers(0, 4))]})
    # parents must be created before children and __subclasses__ order = creation order: ids are creation order
    return {'nodes': nodes, 'p': [None, 'PARAMETRIC', 'NON_PARAMETRIC'][int(rng.integers(0, 3))],
            'b': [None, 'UNBOUNDED', 'SEMI_BOUNDED', 'BOUNDED'][int(rng.integers(0, 4))]}


DIST_POOL = ([['cls', n] for n in REAL] + [['name', '@' + n] for n in REAL] +
             [['proto', 'GaussianKDE', {'bw_method': 0.3}], ['proto', 'TruncatedGaussian', {'minimum': -1e4, 'maximum': 1e4}],
              ['proto', 'BetaUnivariate', {}], ['proto', 'GaussianUnivariate', {}],
              ['univ', {'parametric': 'PARAMETRIC', 'bounded': 'UNBOUNDED'}],
              ['univ', {'candidates': [['cls', 'GaussianUnivariate'], ['cls', 'UniformUnivariate']]}],
              ['cls', 'Univariate'], ['name', '@Univariate']])
FAIL_POOL = [['stub', {'id': 'F1', 'fit': 'ValueError'}], ['stub', {'id': 'F2', 'fit': 'RuntimeError'}],
             ['stub', {'id': 'F3', 'fit': 'LinAlgError'}], ['stubproto', {'id': 'F4', 'fit': 'ZeroDivisionError'}],
             ['univ', {'candidates': [['stub', {'id': 'F5', 'fit': 'ValueError'}]]}]]          # D1 inside a column: every candidate fails
NOINST_POOL = [['stub', {'id': 'I1', 'init': 'RuntimeError'}], ['bad', 'nope_module_xyz.Nope'], ['bad', 'nodot'],
               ['bad', 'copulas.univariate.NoSuchClass']]


def gen_columns_spec(rng, k):
    ncol = int(rng.integers(1, 5))
    labels = list(rng.permutation(['a', 'b', 'c', 'd', 0, 1, 7])[:ncol])
    labels = [int(x) if str(x).isdigit() else str(x) for x in labels]
    n = int(rng.integers(16, 48))
    columns = []
    for lab in labels:
        d = gen_data(rng, small=True)
        d['n'] = n
        r = rng.random()
        if r < 0.05:
            d = {'strings': True, 'n': n}
        elif r < 0.12:
            d['nan'] = int(rng.integers(0, n)) + 1
        elif r < 0.18:
            d = {'kind': 'const', 'seed': 0, 'n': n, 'c': float(rng.integers(-3, 4))}
        columns.append([lab, d])
    mode = ['single', 'dict', 'dict', 'dict', 'default'][int(rng.integers(0, 5))] if k >= 5 else ['single', 'dict', 'dict', 'default', 'dict'][k]
    dists = []

    def pick():
        r = rng.random()
        pool = FAIL_POOL if r < 0.3 else (NOINST_POOL if r < 0.38 else DIST_POOL)
        d = pool[int(rng.integers(0, len(pool)))]
        if d[0] == 'univ' or d[1] in ('Univariate', '@Univariate'):
            if rng.random() < 0.5:                      # keep the expensive wrapper rare
                d = DIST_POOL[int(rng.integers(0, 16))]
        if d not in dists:
            dists.append(d)
        return dists.index(d)
    if mode == 'single':
        config = ['single', pick()]
        used = {str(ci): [config[1]] for ci in range(ncol)}
    elif mode == 'default':
        config = ['default']
        used = {}
    else:
        named = [lab for lab in labels if rng.random() < 0.6]
        entries = [[lab, pick()] for lab in named]
        if rng.random() < 0.3:
            entries.append(['zz_not_a_column', pick()])
        rng.shuffle(entries)
        entries = [[e[0], int(e[1])] for e in entries]
        config = ['dict', entries]
        used = {str(labels.index(lab)): [i] for lab, i in entries if lab in labels}
    spec = {'columns': columns, 'dists': dists, 'config': config, 'used': used, 'only_columns': bool(rng.random() < 0.25)}
    if invalid_frame(spec) and rng.random() < 0.75:
        spec['only_columns'] = True          # fit() itself refuses such tables (@check_valid_values); _fit_columns does not
    return spec


# ===================================================================== property oracles on the implementation (witness search)
def oracle_best_ks(spec):
    """Univariate.fit picks a candidate whose independently recomputed KS statistic is minimal among those that fit"""
    from scipy.stats import kstest
    from copulas.univariate.base import Univariate
    from copulas.utils import get_instance, get_qualified_name
    X = data_of(spec['data'])
    cands = [build(c) for c in spec['candidates']]
    stats = []
    for c in cands:
        try:
            with np.errstate(all='ignore'):
                inst = get_instance(c)
                inst.fit(X)
                ks = float(kstest(X, inst.cdf)[0])
            stats.append(ks if ks == ks else None)
        except Exception:
            stats.append(None)
    u = Univariate(candidates=list(cands))
    saved = np.random.get_state()
    try:
        with np.errstate(all='ignore'):
            try:
                u.fit(X)
                err = None
            except Exception as e:
                err = e
    finally:
        np.random.set_state(saved)
    fitted = [s for s in stats if s is not None]
    bad = []
    if not fitted:
        if err is None:
            bad.append(f'no candidate can be fitted, yet fit returned normally with {type(u._instance).__name__}')
        return bad
    if err is not None:
        return [f'candidates with KS {stats} can be fitted, but Univariate.fit raised {type(err).__name__}: {err}']
    def is_selected(c):
        # the candidate the selected instance was built from: same class and, for a configured prototype, the same options
        if expected_class(c) is not type(u._instance):
            return False
        if c[0] == 'proto':
            attr = {'minimum': 'min', 'maximum': 'max'}
            return all(getattr(u._instance, attr.get(k, k), None) == v for k, v in c[2].items())
        return True
    sel = [s for c, s in zip(spec['candidates'], stats) if is_selected(c)]
    if not sel or all(s is None for s in sel):
        return [f'selected {type(u._instance).__name__}, which is not a candidate that can be fitted (KS {stats})']
    if min(s for s in sel if s is not None) > min(fitted):
        bad.append(f'selected {type(u._instance).__name__} with KS {min(s for s in sel if s is not None)!r} but a candidate has KS {min(fitted)!r} (all: {stats})')
    if not u.fitted or not u._instance.fitted:
        bad.append('fit returned normally but the model is not fitted')
    try:
        t = u.to_dict()['type']
        if t != get_qualified_name(type(u._instance)):
            bad.append(f'to_dict()["type"] = {t}, selected class is {get_qualified_name(type(u._instance))}')
    except Exception as e:
        if hasattr(u._instance, '_get_params'):
            bad.append(f'to_dict raised {type(e).__name__}: {e}')
    return bad


def oracle_filters(spec):
    """candidates honour the filters (checked without using _select_candidates) or the explicit list"""
    import copulas.univariate as cu
    from copulas.univariate.base import Univariate
    p, b = enum_of('p', spec['p']), enum_of('b', spec['b'])
    bad = []
    if spec['explicit'] is not None:
        lst = [build(c) for c in spec['explicit']]
        u = Univariate(candidates=lst, parametric=p, bounded=b)
        if len(u.candidates) != len(lst) or any(x is not y for x, y in zip(u.candidates, lst)):
            bad.append(f'explicit candidate list {[cand_name(c) for c in lst]} not honoured: candidates = {[cand_name(c) for c in u.candidates]}')
        return bad
    got = Univariate(parametric=p, bounded=b).candidates
    public = [getattr(cu, n) for n in cu.__all__ if isinstance(getattr(cu, n), type) and issubclass(getattr(cu, n), Univariate)
              and getattr(cu, n) is not Univariate]
    want = [c for c in public if (p is None or c.PARAMETRIC == p) and (b is None or c.BOUNDED == b)]
    for c in got:
        if not (isinstance(c, type) and issubclass(c, Univariate) and c is not Univariate):
            bad.append(f'{c} is not a proper Univariate subclass')
            continue
        if p is not None and c.PARAMETRIC != p:
            bad.append(f'{c.__name__}.PARAMETRIC = {c.PARAMETRIC.name} violates the filter {p.name}')
        if b is not None and c.BOUNDED != b:
            bad.append(f'{c.__name__}.BOUNDED = {c.BOUNDED.name} violates the filter {b.name}')
        try:
            c()
        except Exception as e:
            bad.append(f'{c.__name__} cannot be instantiated ({type(e).__name__})')
    for c in want:
        if c not in got:
            bad.append(f'public family {c.__name__} satisfies the filters but is not a candidate')
    if len(set(got)) != len(got):
        bad.append('duplicate candidates')
    return bad


def oracle_fallback(spec):
    """a configured distribution that raises in fit => GaussianUnivariate, fit succeeds, model usable"""
    import copulas.multivariate.gaussian as G
    from copulas.univariate import GaussianUnivariate
    X = frame_of(spec)
    cfg = config_of(spec)
    gm = G.GaussianMultivariate(distribution=cfg)
    saved = np.random.get_state()
    try:
        with np.errstate(all='ignore'):
            try:
                gm.fit(X)
            except Exception as e:
                return [f'fit raised {type(e).__name__}: {e} although only the configured distributions fail']
            bad = []
            for lab, u in zip(gm.columns, gm.univariates):
                want_fb = lab in spec['failing']
                if want_fb and not (type(u) is GaussianUnivariate and u.fitted):
                    bad.append(f'column {lab!r}: configured distribution raises in fit but the column is modelled by {type(u).__name__} (fitted={getattr(u, "fitted", None)})')
                if want_fb:
                    mu = float(np.mean(X[lab]))
                    if abs(u._params['loc'] - mu) > 1e-9 * (1 + abs(mu)):
                        bad.append(f'column {lab!r}: fallback Gaussian has loc {u._params["loc"]}, column mean is {mu}')
                if not want_fb and type(u) is not dist_expected_class(spec['dists'][spec['good'][str(lab)]]):
                    bad.append(f'column {lab!r}: modelled by {type(u).__name__} instead of the configured distribution')
            if list(gm.columns) != [lab for lab, _ in spec['columns']]:
                bad.append(f'columns {gm.columns}')
            if not gm.fitted:
                bad.append('fit returned but fitted is False')
            try:
                s = gm.sample(4)
                if list(s.columns) != list(gm.columns) or len(s) != 4:
                    bad.append('sample after fallback has the wrong shape')
            except Exception as e:
                bad.append(f'sample after fallback raised {type(e).__name__}: {e}')
            return bad
    finally:
        np.random.set_state(saved)


def dist_config_state(obj):
    skip = ('random_state', '__args__', '__kwargs__', 'init_args')
    out = {}
    for k, v in vars(obj).items():
        if k in skip:
            continue
        out[k] = [cand_name(c) for c in v] if k == 'candidates' else v
    return out


def oracle_fresh(spec):
    """get_instance(class | qualified name | prototype): new, unfitted object of that class configured like the prototype"""
    from copulas.utils import get_instance
    obj = build(spec['dist'])
    before = dist_config_state(obj) if not isinstance(obj, (str, type)) else None
    a, b = get_instance(obj), get_instance(obj)
    bad = []
    want = expected_class(spec['dist'])
    for inst in (a, b):
        if type(inst) is not want:
            bad.append(f'get_instance gives a {type(inst).__name__}, expected {want.__name__}')
        if getattr(inst, 'fitted', False):
            bad.append('new instance is already fitted')
    if a is b or a is obj or b is obj:
        bad.append('get_instance does not create a new object on every call')
    if before is not None and not bad:
        for k, v in before.items():
            if k in vars(a) and not (vars(a)[k] == v or (k == 'candidates' and [cand_name(c) for c in vars(a)[k]] == v)):
                bad.append(f'distribution parameter {k} of the prototype ({v!r}) is not carried over ({vars(a)[k]!r})')
        # fitting the copy must leave the prototype untouched
        try:
            with np.errstate(all='ignore'):
                a.fit(np.random.RandomState(3).normal(size=30))
        except Exception:
            pass
        if getattr(obj, 'fitted', False) or dist_config_state(obj) != before:
            bad.append('fitting the new instance modified the prototype')
    return bad


def oracle_shared_prototype(spec):
    """ONE prototype object configured for several columns (per-column dict values that are the same instance, or distribution=instance):
    every column must be modelled by its own fresh instance of the prototype's class, fitted to that column alone (parameters equal to an
    independent fit of a copy of the prototype on the column), and the prototype itself stays unfitted."""
    import copy
    import pandas as pd
    from copulas.multivariate import GaussianMultivariate
    from copulas import univariate as U
    proto = getattr(U, spec['cls'])(**spec.get('kwargs', {}))
    rs = np.random.RandomState(spec['seed'])
    cols = spec['columns']
    X = pd.DataFrame({c: rs.normal(loc, sc, spec['n']) for c, loc, sc in cols}, columns=[c for c, _, _ in cols])
    if spec['cls'] in ('GammaUnivariate', 'BetaUnivariate'):
        X = X.abs() + 0.1
    dist = proto if spec['how'] == 'single' else {c: proto for c in spec['shared']}
    ref = {}
    for c in X.columns:
        if spec['how'] == 'single' or c in spec['shared']:
            r = copy.deepcopy(proto)
            with np.errstate(all='ignore'):
                r.fit(X[c])          # the column as GaussianMultivariate hands it over (a Series)
            ref[c] = r
    m = GaussianMultivariate(distribution=dist, random_state=3)
    with np.errstate(all='ignore'):
        m.fit(X)
    bad = []
    seen = []
    for c, u in zip(m.columns, m.univariates):
        if c not in ref:
            continue
        if u is proto:
            bad.append(f'column {c!r} is modelled by the caller\'s prototype object itself, not by a new instance')
        if any(u is v for v in seen):
            bad.append(f'column {c!r} shares its univariate object with another column')
        seen.append(u)
        if type(u) is not type(proto):
            bad.append(f'column {c!r} is modelled by a {type(u).__name__}, configured {type(proto).__name__}')
            continue
        same, why = params_equal(u, ref[c])
        if not same:
            bad.append(f'column {c!r} (location {dict((a, b) for a, b, _ in cols)[c]}): fitted parameters {u.to_dict()} differ from an independent '
                       f'fit of the configured distribution on that column {ref[c].to_dict()} ({why})')
    if getattr(proto, 'fitted', False):
        bad.append('the caller\'s prototype instance was fitted by GaussianMultivariate.fit')
    return bad


ORACLES = {'best_ks': oracle_best_ks, 'filters': oracle_filters, 'fallback': oracle_fallback, 'fresh': oracle_fresh,
           'shared_prototype': oracle_shared_prototype}


# ===================================================================== the check
def generate(ctx):
    """(1) facts / translations from the current source; fail-closed"""
    ok, ct, info = True, None, None
    try:
        ct = SF.class_tree()
        ctx.write('Gen_classtree.v', SF.gen_classtree_coq(ct))
        ctx.obligation('translate:class-tree', True, 'translation')
    except (SF.Unsupported, SyntaxError, OSError) as e:
        ctx.obligation('translate:class-tree', False, 'translation', f'{type(e).__name__}: {e}')
        ok = False
    try:
        ctx.write('Gen_select.v', SF.gen_select_coq())
        ctx.obligation('translate:select_univariate+Univariate+get_instance', True, 'translation')
    except (SF.Unsupported, SyntaxError, OSError) as e:
        ctx.obligation('translate:select_univariate+Univariate+get_instance', False, 'translation', f'{type(e).__name__}: {e}')
        ok = False
    if ct is not None:
        try:
            txt, info = SF.translate_gaussian_columns(ct)
            ctx.write('Gen_gausscols.v', txt)
            ctx.obligation('translate:GaussianMultivariate-columns', True, 'translation')
        except (SF.Unsupported, SyntaxError, OSError) as e:
            ctx.obligation('translate:GaussianMultivariate-columns', False, 'translation', f'{type(e).__name__}: {e}')
            ok = False
    return ok, ct, info


def short(spec):
    return json.loads(json.dumps(spec, default=str))


_SAMPLES = {}


def smp(stream, d):
    """keep the evidence samples diverse: one per stream (two for the column stream)"""
    n = _SAMPLES.get(stream, 0)
    _SAMPLES[stream] = n + 1
    return d if n < (2 if stream == 'cols' else 1) else None


def corr_select(ctx, rng, n_inject, n_real, model_ok):
    specs = []
    for i in range(n_inject):
        specs.append({'data': {'kind': 'normal', 'seed': int(rng.integers(0, 1000)), 'n': 12}, 'inject': True,
                      'candidates': gen_inject_cands(rng)})
    # designed: ties go to the earliest, nan / inf never win, inf only
    def st(i, ks, **kw):
        return ['stub', {'id': i, 'ks': ks, **kw}]
    designed = [[st(0, 0.5), st(1, 0.25), st(2, 0.25), st(3, 0.5)], [st(0, 'nan'), st(1, 0.9), st(2, 'nan')],
                [st(0, 'inf'), st(1, 'inf')], [st(0, 'inf'), st(1, 1.0)], [st(0, 0.0), st(1, 0.0)], [],
                [st(0, 0.3, fit='ValueError'), st(1, 0.7)], [st(0, 0.1, cdf='ValueError'), st(1, 0.2, init='TypeError'), st(2, 0.4)],
                [st(0, 0.4), st(1, 0.4 - 2 ** -54), st(2, 0.4)], [st(0, 'raise'), st(1, 'nan'), st(2, 0.2, fit='KeyError')],
                [st(0, 0.2, np=False), st(1, 0.1, np=False), st(2, 0.1, np=True)]]
    for c in designed:
        specs.append({'data': {'kind': 'normal', 'seed': 1, 'n': 10}, 'inject': True, 'candidates': c})
    natural = [{'values': [1.0, 2.0, None, 4.0, 5.0, 6.0]}, {'kind': 'const', 'seed': 0, 'n': 15, 'c': 2.5},
               {'values': [1.5]}, {'values': [1.0, 2.0]}]
    for i in range(n_real):
        d = natural[i] if i < len(natural) else gen_data(rng)
        cands = [['cls', n] for n in REAL] if i < len(natural) else gen_real_cands(rng)
        specs.append({'data': d, 'inject': False, 'candidates': cands})
    runs, exprs = [], []
    for s in specs:
        r = real_select(s)
        runs.append(r)
        exprs.append('run_select [' + '; '.join(oc_coq(v) for v in (r['outcomes'] or [])) + ']')
    outs = cases.run_vm_cases(ctx, 'Cases_C05_select', IMPORTS, exprs, scope_open=SCOPE) if model_ok else [None] * len(exprs)
    for i, (s, r, o) in enumerate(zip(specs, runs, outs)):
        o = (o or '').replace('%nat', '')
        m = re.match(r'FreshInstance (\d+)', o)
        model = int(m.group(1)) if m else (None if o.startswith('PyNone') else 'unparsed')
        if model == 'unparsed':
            ctx.obligation(f'corr:select:{i}', False, 'correspondence', f'model evaluation failed: {o!r}')
            continue
        bad = judge_select(s, r, model)
        oc = [oc_json(v) for v in (r['outcomes'] or [])]
        ctx.obligation(f'corr:select:{i}', not bad, 'correspondence', f'{bad} outcomes={oc} model={model}')
        ctx.case(('select', s['inject'], json.dumps(oc), len(s['candidates'])),
                 smp(('select', s['inject']), {'stream': 'select_univariate/' + ('injected-ks' if s['inject'] else 'recorded-ks'), 'outcomes_per_candidate': oc,
                  'candidates': [c[0] + ':' + str(c[1] if c[0] != 'stub' and c[0] != 'stubproto' else c[1].get('id')) for c in s['candidates']],
                  'model_selected': model}), nontrivial=len(oc) >= 2)
        if bad:
            ctx.violation('corr:select_univariate:' + ('injected' if s['inject'] else 'recorded'),
                          f'select_univariate disagrees with the model on KS outcomes {oc}: {bad[0]}',
                          {'spec': short(s), 'outcomes': oc, 'model_selected': model, 'disagreements': bad,
                           'repro': snippet('replay_select', s, model)})


def corr_fit(ctx, rng, n_inject, n_real, model_ok):
    specs = []
    for i in range(n_inject):
        n = int(rng.integers(10, 30))
        sss = [None, None, int(rng.integers(3, n)), n + 5, 0][int(rng.integers(0, 5))]
        lim = sss if (sss and sss < n) else None
        specs.append({'data': {'kind': 'normal', 'seed': int(rng.integers(0, 1000)), 'n': n}, 'inject': True, 'sss': sss,
                      'candidates': gen_inject_cands(rng, lim) or [['stub', gen_stub(rng, 0)]]})
    specs.append({'data': {'kind': 'normal', 'seed': 3, 'n': 20}, 'inject': True, 'sss': 5,
                  'candidates': [['stub', {'id': 0, 'ks': 0.5}], ['stub', {'id': 1, 'ks': 0.1, 'limit': 5}]]})   # selected, then the full fit raises
    specs.append({'data': {'kind': 'normal', 'seed': 3, 'n': 20}, 'inject': True, 'sss': None,
                  'candidates': [['stub', {'id': 0, 'fit': 'ValueError'}], ['stub', {'id': 1, 'ks': 'nan'}]]})     # D1
    for i in range(n_real):
        specs.append({'data': gen_data(rng), 'inject': False, 'sss': [None, None, 10][int(rng.integers(0, 3))],
                      'candidates': gen_real_cands(rng)})
    specs.append({'data': {'values': [1.0, None, 3.0, 2.0]}, 'inject': False, 'sss': None, 'candidates': [['cls', n] for n in REAL]})
    runs, exprs = [], []
    for s in specs:
        r = real_fit(s)
        runs.append(r)
        exprs.append('run_fit [' + '; '.join(oc_coq(v) for v in (r['outcomes'] or [])) + '] [' +
                     '; '.join('true' if v else 'false' for v in r['refits']) + ']')
    outs = cases.run_vm_cases(ctx, 'Cases_C05_fit', IMPORTS, exprs, scope_open=SCOPE) if model_ok else [None] * len(exprs)
    for i, (s, r, o) in enumerate(zip(specs, runs, outs)):
        model = parse_fit((o or '').replace('%nat', ''))
        if model[0] == 'unparsed':
            ctx.obligation(f'corr:fit:{i}', False, 'correspondence', f'model evaluation failed: {o!r}')
            continue
        bad = judge_fit(s, r, model)
        oc = [oc_json(v) for v in (r['outcomes'] or [])]
        ctx.obligation(f'corr:fit:{i}', not bad, 'correspondence', f'{bad} outcomes={oc} refits={r["refits"]} model={model}')
        ctx.case(('fit', s['inject'], json.dumps(oc), s.get('sss')),
                 smp(('fit', s['inject']), {'stream': 'Univariate.fit/' + ('injected-ks' if s['inject'] else 'recorded-ks'), 'outcomes_per_candidate': oc,
                  'selection_sample_size': s.get('sss'), 'model': list(model),
                  'impl': r['out'][0] if r['out'][0] == 'ret' else type(r['out'][1]).__name__}), nontrivial=len(oc) >= 1)
        if bad:
            ctx.violation('corr:Univariate.fit:' + ('injected' if s['inject'] else 'recorded'),
                          f'Univariate.fit disagrees with the model on KS outcomes {oc}: {bad[0]}',
                          {'spec': short(s), 'outcomes': oc, 'model': list(model), 'disagreements': bad,
                           'repro': snippet('replay_fit', s, list(model))})


def corr_candidates(ctx, rng, n_trees, model_ok, ct):
    P = [None, 'PARAMETRIC', 'NON_PARAMETRIC']
    B = [None, 'UNBOUNDED', 'SEMI_BOUNDED', 'BOUNDED']
    specs = [{'explicit': None, 'p': p, 'b': b} for p in P for b in B]
    for k in range(6):
        lst = [['cls', REAL[i]] for i in rng.choice(len(REAL), size=int(rng.integers(1, 4)), replace=False)]
        if k % 2:
            lst.append(['name', '@' + REAL[int(rng.integers(0, len(REAL)))]])
        specs.append({'explicit': lst, 'p': P[int(rng.integers(0, 3))], 'b': B[int(rng.integers(0, 4))]})
    specs += [{'explicit': [], 'p': None, 'b': None}, {'explicit': [], 'p': 'PARAMETRIC', 'b': 'BOUNDED'}]

    def coq_names(lst):
        return '[' + '; '.join('"' + (c[1].lstrip('@') if c[0] != 'name' else 'str:' + c[1].lstrip('@')) + '"' for c in lst) + ']'
    exprs = []
    for s in specs:
        e = 'None' if s['explicit'] is None else f'(Some {coq_names(s["explicit"])})'
        exprs.append(f'run_candidates {e} {coq_opt(s["p"])} {coq_opt(s["b"])}')
    tspecs = [gen_tree_spec(rng) for _ in range(n_trees)]
    treal = []
    for s in tspecs:
        got, eff = real_synth_tree(s)
        treal.append(got)
        exprs.append(f'run_walk {coq_opt(s["p"])} {coq_opt(s["b"])} ({synth_tree_coq(s, eff)})')
    outs = cases.run_vm_cases(ctx, 'Cases_C05_cands', IMPORTS, exprs, scope_open=SCOPE) if model_ok else [None] * len(exprs)
    for i, s in enumerate(specs):
        if outs[i] is None:
            ctx.obligation(f'corr:candidates:{i}', False, 'correspondence', 'model evaluation failed')
            continue
        model = strs(outs[i])
        got, direct = real_candidates(s)
        gotn = [('str:' + g.rsplit('.', 1)[-1]) if '.' in g else g for g in got]
        ok = gotn == model and (s['explicit'] is not None or direct == model)
        ctx.obligation(f'corr:candidates:{i}', ok, 'correspondence', f'implementation {gotn} / {direct} vs model {model} for {s}')
        ctx.case(('cands', json.dumps(s)), smp('cands', {'stream': 'Univariate(...).candidates', **short(s), 'candidates': model}), nontrivial=True)
        if not ok:
            ctx.violation(f'corr:candidates:p={s["p"]}:b={s["b"]}:explicit={"none" if s["explicit"] is None else len(s["explicit"])}',
                          f'Univariate(candidates={s["explicit"]}, parametric={s["p"]}, bounded={s["b"]}).candidates = {gotn}, model (from the AST class tree) {model}',
                          {'spec': s, 'model': model, 'implementation': gotn, 'repro': snippet('replay_candidates_names', s, model)})
    for j, (s, got) in enumerate(zip(tspecs, treal)):
        o = outs[len(specs) + j]
        if o is None:
            ctx.obligation(f'corr:synthetic-tree:{j}', False, 'correspondence', 'model evaluation failed')
            continue
        model = strs(o)
        ok = model == got
        ctx.obligation(f'corr:synthetic-tree:{j}', ok, 'correspondence', f'implementation {got} vs model {model} for {s}')
        ctx.case(('tree', json.dumps(s)), smp('tree', {'stream': '_select_candidates on a synthetic class tree', 'nodes': len(s['nodes']),
                                                       'p': s['p'], 'b': s['b'], 'candidates': model}), nontrivial=len(s['nodes']) > 2)
        if not ok:
            ctx.violation('corr:_select_candidates:synthetic-tree',
                          f'_select_candidates({s["p"]}, {s["b"]}) on a synthetic class tree gives {got}, model {model}',
                          {'spec': s, 'model': model, 'implementation': got, 'repro': snippet('replay_synth', s, model)})
    # the extractor itself: AST tree == imported package
    if ct is None:
        return
    rt = SF.runtime_tree()
    at = SF.ast_tree_as_tuple(ct)
    ctx.obligation('corr:class-tree:ast-equals-runtime', rt == at, 'correspondence', f'AST {at}\nruntime {rt}')
    if rt != at:
        ctx.violation('corr:class-tree:ast-vs-runtime', 'the class tree extracted from the AST differs from the imported package',
                      {'ast': str(at), 'runtime': str(rt),
                       'repro': 'from vf import selectfacts as S\nassert S.ast_tree_as_tuple(S.class_tree()) == S.runtime_tree()\n'})


def replay_candidates_names(spec, expected):
    got, _ = real_candidates(spec)
    gotn = [('str:' + g.rsplit('.', 1)[-1]) if '.' in g else g for g in got]
    print('implementation', gotn, 'expected', expected)
    assert gotn == expected, (gotn, expected)


def corr_columns(ctx, rng, n, model_ok):
    specs = [gen_columns_spec(rng, k) for k in range(n)]
    # designed: dict with a failing, a good and an unnamed column (default Univariate); prototype; D1 inside a column
    specs.append({'columns': [['a', {'kind': 'gamma', 'seed': 1, 'n': 30}], ['b', {'kind': 'normal', 'seed': 2, 'n': 30}],
                              [5, {'kind': 'uniform', 'seed': 3, 'n': 30}]],
                  'dists': [FAIL_POOL[0], ['cls', 'GammaUnivariate'], ['proto', 'GaussianKDE', {'bw_method': 0.3}]],
                  'config': ['dict', [['b', 0], ['a', 1], ['nope', 2]]], 'used': {'0': [1], '1': [0]}, 'only_columns': False})
    specs.append({'columns': [['x', {'kind': 'normal', 'seed': 4, 'n': 25}], ['y', {'kind': 'beta', 'seed': 5, 'n': 25}]],
                  'dists': [['proto', 'GaussianKDE', {'bw_method': 0.3}]], 'config': ['single', 0], 'used': {'0': [0], '1': [0]},
                  'only_columns': False})
    specs.append({'columns': [['x', {'kind': 'normal', 'seed': 6, 'n': 25}], ['y', {'kind': 'gamma', 'seed': 7, 'n': 25}]],
                  'dists': [FAIL_POOL[4], NOINST_POOL[0]], 'config': ['dict', [['x', 0]]], 'used': {'0': [0]}, 'only_columns': False})
    specs.append({'columns': [['x', {'kind': 'normal', 'seed': 6, 'n': 25}], ['y', {'kind': 'gamma', 'seed': 7, 'n': 25}]],
                  'dists': [['cls', 'BetaUnivariate'], NOINST_POOL[1]], 'config': ['dict', [['y', 1], ['x', 0]]], 'used': {'0': [0], '1': [1]},
                  'only_columns': False})
    runs, exprs = [], []
    for s in specs:
        r = real_columns(s)
        table, inst, fits, fitted = column_oracles(s, r['X'])
        runs.append((r, table, fitted))
        exprs.append(columns_coq(s, inst, fits))
    outs = cases.run_vm_cases(ctx, 'Cases_C05_cols', IMPORTS, exprs, scope_open=SCOPE) if model_ok else [None] * len(exprs)
    for i, (s, (r, table, fitted), o) in enumerate(zip(specs, runs, outs)):
        model = parse_columns(o)
        if model is None or model[0] == 'unparsed':
            ctx.obligation(f'corr:columns:{i}', False, 'correspondence', f'model evaluation failed: {o!r}')
            continue
        bad = judge_columns(s, r, table, fitted, model)
        summ = {'stream': 'GaussianMultivariate.' + ('_fit_columns' if s.get('only_columns') else 'fit'),
                'config': [s['config'][0]] + ([[(lab, s['dists'][j][:2]) for lab, j in s['config'][1]]] if s['config'][0] == 'dict' else
                                              ([s['dists'][s['config'][1]][:2]] if s['config'][0] == 'single' else [])),
                'columns': [lab for lab, _ in s['columns']],
                'impl': r['out'][0] if r['out'][0] == 'exc' else [type(u).__name__ for u in r['out'][2]], 'fallback_columns': r['fallbacks'],
                'model': model[1] if model[0] == 'err' else [('default', 'fallback', '-')[d] if d < 3 else f'dist{d - 3}' for d, _ in model[2]]}
        ctx.obligation(f'corr:columns:{i}', not bad, 'correspondence', f'{bad} {summ}')
        ctx.case(('cols', json.dumps(short(summ), default=str)), smp('cols', short(summ)), nontrivial=True)
        if bad:
            ctx.violation('corr:GaussianMultivariate-columns:' + s['config'][0],
                          f'GaussianMultivariate per-column modelling disagrees with the model: {bad[0]}',
                          {'spec': short(s), 'summary': short(summ), 'disagreements': bad,
                           'repro': snippet('replay_columns', s, list(model))})


def witness(ctx, rng, quick):
    hits = 0

    def run_oracle(name, spec, key_fn, label):
        nonlocal hits
        try:
            bad = ORACLES[name](spec)
        except Exception as e:
            bad = [f'oracle raised {type(e).__name__}: {e}']
        ctx.case(('oracle', name, json.dumps(short(spec), default=str)), smp(('oracle', name), {'oracle': name, **label, 'violations': bad[:2]}) if name != 'filters' else None,
                 nontrivial=True)
        if bad:
            hits += 1
            ctx.violation(key_fn(bad), f'{name}: {bad[0]}', {'oracle': name, 'spec': short(spec), 'violations': bad,
                                                            'repro': snippet('replay_oracle', name, spec)})
    # (a) minimal KS among the candidates that can be fitted (independent recomputation with scipy's kstest)
    sets = [[['cls', n] for n in REAL]]
    for _ in range(5 if quick else 40):
        sets.append(gen_real_cands(rng))
    datas = [gen_data(rng) for _ in sets]
    datas[0] = {'kind': 'gamma', 'seed': 11, 'n': 70}
    sets.append([['cls', n] for n in REAL])
    datas.append({'kind': 'const', 'seed': 0, 'n': 12, 'c': -1.0})
    # tied data (the KS statistic of a sample with ties: D- uses the count of values strictly below, not rank - 1)
    for sd, law, dec, n_ in ((3, 'gamma', 0, 60), (4, 'normal', 0, 80), (5, 'gamma', 0, 200), (6, 'normal', 1, 40), (7, 'gamma', 0, 35)):
        sets.append([['cls', n] for n in REAL])
        datas.append({'kind': 'rounded', 'seed': sd, 'n': n_, 'law': law, 'decimals': dec})
    sets.append([['cls', n] for n in REAL])
    datas.append({'kind': 'ints', 'seed': 8, 'n': 50, 'k': 6})
    # 100 000 rows, two cheap candidates in both orders
    for order in (['UniformUnivariate', 'GaussianUnivariate'], ['GaussianUnivariate', 'UniformUnivariate']):
        sets.append([['cls', n] for n in order])
        datas.append({'kind': 'long-uniform', 'seed': 9, 'n': 100000})
    # the same family listed twice with different options: every listed candidate competes
    sets.append([['proto', 'GaussianKDE', {'bw_method': 3.0}], ['proto', 'GaussianKDE', {'bw_method': 0.1}]])
    datas.append({'kind': 'bimodal', 'seed': 10, 'n': 120})
    sets.append([['proto', 'TruncatedGaussian', {'minimum': -50.0, 'maximum': 50.0}], ['proto', 'TruncatedGaussian', {'minimum': -6.0, 'maximum': 6.0}]])
    datas.append({'kind': 'bimodal', 'seed': 11, 'n': 150})
    sets.append([['cls', 'BetaUnivariate'], ['stub', {'id': 'w', 'fit': 'ValueError'}]])
    datas.append({'values': [0.5, None, 1.0, 0.25]})
    for c, d in zip(sets, datas):
        run_oracle('best_ks', {'data': d, 'candidates': c}, lambda bad: 'oracle:best-ks-not-minimal',
                   {'data': d.get('kind', 'values'), 'candidates': [x[1] if isinstance(x[1], str) else x[1].get('id') for x in c]})
    # (b) filters / explicit list
    for p in [None, 'PARAMETRIC', 'NON_PARAMETRIC']:
        for b in [None, 'UNBOUNDED', 'SEMI_BOUNDED', 'BOUNDED']:
            run_oracle('filters', {'explicit': None, 'p': p, 'b': b}, lambda bad, p=p, b=b: f'oracle:filters:p={p}:b={b}', {'p': p, 'b': b})
    for lst in ([['cls', 'GaussianUnivariate']], [['cls', 'GammaUnivariate'], ['name', '@BetaUnivariate'], ['proto', 'GaussianKDE', {'bw_method': 0.5}]]):
        run_oracle('filters', {'explicit': lst, 'p': 'NON_PARAMETRIC', 'b': None}, lambda bad: 'oracle:explicit-list-not-honoured',
                   {'explicit': [c[1] for c in lst]})
    for p, b in ((None, None), ('PARAMETRIC', 'SEMI_BOUNDED')):
        spec = {'explicit': [], 'p': p, 'b': b}
        try:
            bad = oracle_filters(spec)
        except Exception as e:
            bad = [f'oracle raised {type(e).__name__}: {e}']
        ctx.case(('oracle', 'filters', json.dumps(spec)), {'oracle': 'filters', **spec, 'violations': bad[:1]}, nontrivial=True)
        if bad:
            hits += 1
            ctx.violation('D2:empty-candidate-list-replaced-by-all-subclasses',
                          'Univariate(candidates=[]) does not honour the explicit (empty) candidate list: `candidates or ...` replaces it by '
                          'every subclass matching the filters, so fit selects among families the caller did not list: ' + bad[0],
                          {'oracle': 'filters', 'spec': spec, 'violations': bad,
                           'repro': 'from copulas.univariate import Univariate\nu = Univariate(candidates=[])\n'
                                    'print([c.__name__ for c in u.candidates])\n'
                                    'assert u.candidates == [], "the explicit (empty) candidate list is not honoured"\n'})
    # (c) fallback
    for k in range(4 if quick else 16):
        ncol = int(rng.integers(2, 5))
        labels = ['a', 'b', 'c', 'd'][:ncol]
        n = int(rng.integers(15, 40))
        cols = [[lab, {**gen_data(rng, True), 'n': n}] for lab in labels]
        dists = [FAIL_POOL[int(rng.integers(0, len(FAIL_POOL)))], DIST_POOL[int(rng.integers(0, 8))]]
        failing = [lab for lab in labels if rng.random() < 0.5] or [labels[0]]
        if k == 0:
            spec = {'columns': cols, 'dists': dists, 'config': ['single', 0], 'failing': labels, 'good': {}}
        else:
            spec = {'columns': cols, 'dists': dists, 'config': ['dict', [[lab, 0 if lab in failing else 1] for lab in labels]],
                    'failing': failing, 'good': {lab: 1 for lab in labels if lab not in failing}}
        run_oracle('fallback', spec, lambda bad: 'oracle:fallback', {'config': spec['config'][0], 'failing': spec['failing'], 'dists': [d[:2] for d in dists]})
    # (d) fresh instances
    for d in DIST_POOL[:3] + DIST_POOL[8:11] + DIST_POOL[16:] + [['proto', 'GaussianKDE', {'bw_method': 0.7, 'sample_size': 20}],
                                                                ['proto', 'TruncatedGaussian', {'minimum': 0.0, 'maximum': 10.0}]]:
        run_oracle('fresh', {'dist': d}, lambda bad: 'oracle:get_instance-not-fresh', {'dist': d[:2]})
    # (e) one prototype object configured for several columns
    for cls, kw in (('GaussianUnivariate', {}), ('UniformUnivariate', {}), ('GammaUnivariate', {}),
                    ('TruncatedGaussian', {'minimum': -100.0, 'maximum': 400.0})):
        for how, shared in (('dict', ['a', 'b']), ('dict', ['c', 'a', 'b']), ('single', [])):
            spec = {'cls': cls, 'kwargs': kw, 'how': how, 'shared': shared, 'seed': 17, 'n': 60,
                    'columns': [['a', 0.0, 1.0], ['b', 50.0, 3.0], ['c', -20.0, 0.5]]}
            run_oracle('shared_prototype', spec, lambda bad, how=how: f'oracle:shared-prototype:{how}', {'class': cls, 'how': how, 'shared': shared})
    return hits


def run(ctx):
    quick = ctx.tier == 'quick'
    _SAMPLES.clear()
    ctx.write('C05_eval.v', EVAL_V)
    model_ok = ctx.compile(['C05_eval.v'], count_statements=False)
    ok, ct, info = generate(ctx)
    if ok and model_ok:
        ctx.copy_src('Props/C05.v')
        ctx.compile(['Gen_classtree.v', 'Gen_select.v', 'Gen_gausscols.v', 'C05.v'])
    if ct is not None:
        ctx.extra['class_tree'] = SF.ast_tree_as_tuple(ct)
    ctx.extra['default_fallback_classes'] = info
    ctx.rule('select_univariate / Univariate.fit: (i) candidates = harness classes scripted to raise in __init__/fit/cdf, with scipy kstest '
             'replaced by a function RETURNING chosen statistics (ties, 0, 1, nan, inf, values one ulp apart, raising), 0..7 candidates incl. '
             'duplicates, prototypes, all-fail lists; (ii) real families / qualified names / prototypes on random datasets (8 laws, NaN, constant, '
             '1-2 rows) with the real kstest RECORDED; per-candidate outcomes are read off the call trace of get_instance/kstest and the selected '
             'position, error behaviour and freshness of the returned instance are compared with vm_compute of run_select / run_fit '
             '(= the generated gen_select_univariate / gen_univariate_fit, theorems C05_eval_*) on exact rationals; selection_sample_size '
             'and a failing final fit included')
    ctx.rule('candidates: all 12 (parametric, bounded) combinations, explicit lists (classes, names), [] ; random synthetic class trees '
             '(<= 9 classes, ABC mixins, inherited/overridden tags) driven through the real Univariate._select_candidates; vs vm_compute of '
             'run_candidates / run_walk (= gen_init_candidates / gen_select_candidates on the AST-extracted gen_tree, C05_eval_candidates, '
             'C05_tree_is_repo_tree); the AST-extracted tree is also compared with the imported package')
    ctx.rule('GaussianMultivariate: 1-4 columns (str/int labels; NaN, constant, non-numeric columns), distribution = class | qualified name | '
             'instance prototype | dict (with unnamed columns and unused keys) | default; distributions that raise in fit or in __init__, '
             'unresolvable names; oracles instantiable/fit_dist computed independently; compared with vm_compute of run_columns (= gen_fit_columns, C05_eval_columns): '
             'success/raise, column order, class per column, fallback used, parameters equal to an independent fit on the same column, fresh instance')
    rng = np.random.default_rng(ctx.seed + 5)
    # each correspondence phase instruments the library (selection.get_instance / selection.kstest ...); a source that no longer has the
    # instrumented names makes the phase impossible, which is a failed obligation of that phase - never a reason to skip the witness search
    import traceback
    for phase, fn, args in (('select', corr_select, (40 if quick else 600, 10 if quick else 80, model_ok)),
                            ('fit', corr_fit, (30 if quick else 400, 6 if quick else 60, model_ok)),
                            ('candidates', corr_candidates, (30 if quick else 400, model_ok, ct)),
                            ('columns', corr_columns, (22 if quick else 200, model_ok))):
        try:
            fn(ctx, rng, *args)
        except Exception:
            ctx.obligation(f'corr:{phase}:instrumentation', False, 'correspondence', traceback.format_exc()[-800:])
    ctx.extra['witness_search_hits'] = witness(ctx, np.random.default_rng(ctx.seed + 55), quick)
    try:      # round 6: the default candidate list is per object; the selection sees the column's VALUES whatever the row labels
        from .. import extra_oracles3
        extra_oracles3.default_candidates_shared(ctx)
        extra_oracles3.fitted_candidate(ctx)
        extra_oracles3.fit_row_index(ctx, ('selection-sample-size', 'dict'), quick=quick)
    except Exception as ex:
        ctx.obligation('oracle:extra:raised', False, 'correspondence', repr(ex))
        ctx.violation('oracle:extra:raised:' + type(ex).__name__, 'round-6 oracle raised ' + repr(ex), {'repro': '# see tools/vf/extra_oracles3.py'})
    ctx.extra['quirks'] = [
        'D1 (not a violation of C05: no candidate can be fitted, so there is nothing to select; stated as C05_all_fail / C05_fit_all_fail): '
        'select_univariate returns None when every candidate fails and Univariate.fit raises AttributeError("NoneType object has no attribute fit")',
        'D3 (outside C05; C15/C19): ScipyModel.__init__ is not decorated with @store_args, so get_instance(GaussianUnivariate(random_state=3)) '
        'drops random_state; distribution parameters (bw_method, minimum/maximum, candidates, filters) are carried over']
    ctx.trusted += ['scipy.stats.kstest and every family\'s fit/cdf are oracles (try_fit4, refit, fit_dist): recorded or scripted, never modelled',
                    'tools/vf/selectfacts.py: AST extraction of the class tree (cross-checked against the imported package) and the shape-checked '
                    'translators of select_univariate, Univariate.__init__/_select_candidates/fit, get_instance, GaussianMultivariate._fit_column & co',
                    'Python semantics assumed by the translators: `except Exception` catches every Exception subclass, comparisons with nan are False, '
                    '`x or y` on lists, dict.get, cls.__subclasses__() in creation order, attribute lookup through the MRO',
                    'no add-on (entry point copulas_modules) defines further Univariate subclasses']
    ctx.assumptions += ['a candidate\'s get_instance + fit + kstest is an oracle try_fit4 : cand -> Raised | KsNaN | KsInf | Ks q',
                        'instantiable d / fit_dist d column are oracles for get_instance(d) and a fresh instance\'s fit(column)']
