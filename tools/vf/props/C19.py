"""C19 — model life-cycle: fit is a pure function of its inputs; misuse fails loudly.

(1) proofs: coq/Props/C19.v restates the theorems of Spec/LifecycleProofs.v (+ Model/LifecycleTab.v) and ties
    them to the CURRENT source through AST-generated facts (Gen_c19facts.v: @store_args classes, @check_valid_values
    fits, methods that call check_fit() first, attributes written by fit paths).
(2) correspondence: random fit/query histories per class on the real library vs Lifecycle.step evaluated by
    vm_compute with the oracle values captured at the scipy/numpy boundary (tools/vf/lifecycle.py).
(3) witness search: the property itself on the real classes (refit-vs-fresh, unfitted raises, validation,
    get_instance, no dependence on uninitialised memory).
"""
import ast
import json
import os
import warnings

import numpy as np

from .. import cases, facts
from .. import lifecycle as L
from ..core import REPO

PKG = os.path.join(REPO, 'copulas')


# =====================================================================================================
# (1) AST facts
# =====================================================================================================
QUERY_METHODS = ('probability_density', 'log_probability_density', 'cumulative_distribution', 'percent_point',
                 'partial_derivative', 'sample', 'to_dict')


def _first_stmt(fn):
    body = [s for s in fn.body if not (isinstance(s, ast.Expr) and isinstance(s.value, ast.Constant))]
    return body[0] if body else None


def _calls_check_fit_first(fn):
    s = _first_stmt(fn)
    return bool(isinstance(s, ast.Expr) and isinstance(s.value, ast.Call) and ast.unparse(s.value.func) == 'self.check_fit'
                and not s.value.args and not s.value.keywords)


def _self_attrs_written(fn):
    out = set()
    for n in ast.walk(fn):
        targets = []
        if isinstance(n, ast.Assign):
            targets = n.targets
        elif isinstance(n, (ast.AugAssign, ast.AnnAssign)):
            targets = [n.target]
        for t in targets:
            for e in ast.walk(t):
                if isinstance(e, ast.Attribute) and isinstance(e.value, ast.Name) and e.value.id == 'self':
                    out.add(e.attr)
    return sorted(out)


def _check_fit_shape(fn):
    """canonical text of a check_fit body (docstring removed)"""
    body = [s for s in fn.body if not (isinstance(s, ast.Expr) and isinstance(s.value, ast.Constant))]
    return ' ;; '.join(ast.unparse(s).replace('\n', ' ') for s in body)


def _decorator_shape(fn):
    """canonical text of copulas.utils.check_valid_values' inner function"""
    inner = next((s for s in fn.body if isinstance(s, ast.FunctionDef)), None)
    if inner is None:
        return None
    body = [s for s in inner.body if not (isinstance(s, ast.Expr) and isinstance(s.value, ast.Constant))]
    return ' ;; '.join(' '.join(ast.unparse(s).split()) for s in body)


def gen_facts():
    """-> (Coq text, dict of python facts, list of translation problems)"""
    store_args, valid_fits, checked, unchecked, writes, problems = [], [], [], [], [], []
    shapes = {}
    for path in facts.py_files():
        mod = os.path.relpath(path, REPO)[:-3].replace('/', '.')
        try:
            tree = ast.parse(open(path).read())
        except SyntaxError as ex:
            problems.append(f'{mod}: {ex}')
            continue
        for top in tree.body:
            if isinstance(top, ast.FunctionDef) and mod == 'copulas.utils' and top.name == 'check_valid_values':
                shapes['check_valid_values'] = _decorator_shape(top)
            if isinstance(top, ast.FunctionDef) and mod == 'copulas.utils' and top.name == 'get_instance':
                body = [s for s in top.body if not (isinstance(s, ast.Expr) and isinstance(s.value, ast.Constant))]
                shapes['get_instance'] = ' ;; '.join(' '.join(ast.unparse(s).split()) for s in body)
            if isinstance(top, ast.FunctionDef) and mod == 'copulas.utils' and top.name == 'store_args':
                inner = next((s for s in top.body if isinstance(s, ast.FunctionDef)), None)
                shapes['store_args'] = None if inner is None else ' ;; '.join(
                    ' '.join(ast.unparse(s).split()) for s in inner.body)
            if not isinstance(top, ast.ClassDef):
                continue
            for m in top.body:
                if not isinstance(m, ast.FunctionDef):
                    continue
                decs = facts.dec_names(m)
                if m.name == '__init__' and 'store_args' in decs:
                    store_args.append(top.name)
                if m.name == 'fit' and 'check_valid_values' in decs:
                    # the validation must be the OUTERMOST decorator (runs before anything else)
                    valid_fits.append((top.name, decs[0] == 'check_valid_values'))
                if m.name == 'check_fit':
                    shapes[f'check_fit:{top.name}'] = _check_fit_shape(m)
                if m.name in QUERY_METHODS and not facts.is_abstract(m) and not m.name.startswith('_'):
                    (checked if _calls_check_fit_first(m) else unchecked).append((top.name, m.name))
                if m.name in ('fit', '_fit', '_fit_constant', '_set_constant_value', '_replace_constant_methods',
                              '_check_constant_value', '_get_model', '_compute_theta', '_set_params'):
                    writes.append((top.name, m.name, _self_attrs_written(m)))
    cs = facts.coq_string
    lines = ['(* GENERATED by tools/vf/props/C19.py from the AST of the tree under test -- regenerated on every run *)',
             'From Coq Require Import List String Bool.', 'Import ListNotations.', 'Open Scope string_scope.',
             '(* classes whose __init__ is decorated with @store_args *)',
             'Definition store_args_classes : list string := [' + '; '.join(cs(c) for c in sorted(store_args)) + '].',
             '(* classes whose fit is decorated with @check_valid_values, and whether it is the outermost decorator *)',
             'Definition validated_fits : list (string * bool) := ['
             + '; '.join(f'({cs(c)}, {"true" if o else "false"})' for c, o in sorted(valid_fits)) + '].',
             '(* public, non-abstract query methods whose FIRST statement is self.check_fit() *)',
             'Definition check_fit_first : list (string * string) := ['
             + '; '.join(f'({cs(c)}, {cs(m)})' for c, m in sorted(checked)) + '].',
             '(* public, non-abstract query methods that do NOT start with self.check_fit() *)',
             'Definition no_check_fit_first : list (string * string) := ['
             + '; '.join(f'({cs(c)}, {cs(m)})' for c, m in sorted(unchecked)) + '].',
             '(* self.<attr> assignments of the fit paths: (class, method, attributes) *)',
             'Definition fit_writes : list (string * string * list string) := ['
             + ';\n  '.join(f'({cs(c)}, {cs(m)}, [{"; ".join(cs(a) for a in w)}])' for c, m, w in sorted(writes)) + '].',
             '(* bodies of the guards, docstrings removed *)',
             'Definition guard_shapes : list (string * string) := ['
             + ';\n  '.join(f'({cs(k)}, {cs(v or "")})' for k, v in sorted(shapes.items())) + '].']
    py = {'store_args': sorted(store_args), 'validated_fits': sorted(valid_fits), 'check_fit_first': sorted(checked),
          'no_check_fit_first': sorted(unchecked), 'fit_writes': sorted(writes), 'shapes': shapes}
    for need in ('check_valid_values', 'get_instance', 'store_args', 'check_fit:Univariate', 'check_fit:Multivariate',
                 'check_fit:Bivariate'):
        if not shapes.get(need):
            problems.append(f'cannot find {need} in the source')
    return '\n'.join(lines) + '\n', py, problems


# =====================================================================================================
# (2) correspondence: histories
# =====================================================================================================
GAUSS = 'copulas.univariate.gaussian.GaussianUnivariate'


def uni_pool(rng):
    X6 = np.array([1., 2, 3, 4, 5, 7])
    pool = {
        'const3': L.Uni(np.full(5, 3.0), 'const3x5'),
        'constneg': L.Uni(np.full(4, -1.5), 'const-1.5x4'),
        'single': L.Uni([2.0], 'single2.0'),
        'X6': L.Uni(X6, 'X6'),
        'X6x10': L.Uni(10 * X6, '10*X6'),
        'tiny2': L.Uni([0.5, 1.5], 'tiny2'),
        'N50': L.Uni(rng.normal(1.0, 2.0, 50), 'normal50'),
        'N120': L.Uni(rng.normal(-3.0, 0.5, 120), 'normal120'),
        'G40': L.Uni(rng.gamma(2.0, 1.5, 40) + 0.5, 'gamma40'),
        'B30': L.Uni(rng.beta(2.0, 3.0, 30), 'beta30'),
        'U20': L.Uni(rng.uniform(5, 9, 20), 'uniform20'),
    }
    for i in range(3):
        n = int(rng.choice([3, 6, 20, 60]))
        loc, sc = float(rng.uniform(-10, 40)), float(rng.uniform(0.1, 8))
        kind = int(rng.integers(0, 3))
        x = [rng.normal(loc, sc, n), loc + rng.gamma(2.0, sc, n), rng.uniform(loc, loc + sc, n)][kind]
        pool[f'R{i}'] = L.Uni(x, f'random{i}:{["normal", "gamma", "uniform"][kind]}{n}')
    return pool


def biv_pool(rng):
    def dep(n, a, flip=False):
        u = rng.uniform(size=(n, 2))
        u[:, 1] = a * u[:, 0] + (1 - a) * u[:, 1]
        if flip:
            u[:, 1] = 1 - u[:, 1]
        return u
    mono = np.column_stack([np.linspace(.05, .95, 12)] * 2)
    return {
        'pos': L.Biv(dep(60, 0.6), 'pos60'),
        'pos2': L.Biv(dep(25, 0.3), 'pos25'),
        'neg': L.Biv(dep(50, 0.6, True), 'neg50'),
        'constcol': L.Biv(np.column_stack([np.full(6, .5), np.linspace(.1, .9, 6)]), 'constant-column'),
        'outside': L.Biv(np.array([[.1, .2], [1.5, .4], [.3, .9]]), 'outside-unit'),
        'empty': L.Biv(np.zeros((0, 2)), 'empty'),
        'mono': L.Biv(mono, 'monotone(tau=1)'),
        'tau0': L.Biv(np.array([[.1, .2], [.2, .4], [.3, .1], [.4, .3]]), 'tau0'),
    }


def table_pool(rng):
    import pandas as pd
    n = 40
    a = rng.normal(2, 1, n)
    t3 = pd.DataFrame({'a': a, 'b': 0.6 * a + rng.normal(0, 1, n), 'c': rng.gamma(2, 1, n) + 1})
    tc = pd.DataFrame({'a': rng.normal(size=15), 'k': np.full(15, 4.0), 'z': rng.uniform(0, 1, 15)})
    t2 = pd.DataFrame({'b': rng.normal(10, 3, 25), 'a': rng.uniform(0, 1, 25)})
    arr = np.column_stack([rng.normal(size=12), rng.normal(size=12) * 2 + 1])
    return {
        't3': L.Table(t3, 't3(a,b,c)x40'), 'tc': L.Table(tc, 'tc(a,k=const,z)x15'), 't2': L.Table(t2, 't2(b,a)x25'),
        'arr': L.Table(arr, 'ndarray12x2'),
        'empty': L.Table(pd.DataFrame(), 'empty-frame'),
        'strings': L.Table(pd.DataFrame({'a': ['x', 'y', 'z']}), 'strings'),
        'nan': L.Table(pd.DataFrame({'a': [1.0, np.nan, 3.0], 'b': [1.0, 2.0, 3.0]}), 'with-nan'),
    }


def scipy_specs():
    S = L.spec_scipy
    out = []
    for f in ('FGaussian', 'FUniform', 'FBeta', 'FGamma', 'FStudentT', 'FLogLaplace'):
        out += [S(f), S(f, random_state=7)]
    out += [S('FTrunc'), S('FTrunc', random_state=11), S('FTrunc', -60.0, 250.0), S('FTrunc', minimum=-60.0),
            S('FTrunc', maximum=250.0, random_state=3)]
    out += [S('FKDE'), S('FKDE', random_state=5), S('FKDE', sample_size=5), S('FKDE', sample_size=30, random_state=9),
            S('FKDE', sample_size=1), S('FKDE', bw_method='silverman'), S('FKDE', bw_method=0.3),
            S('FKDE', sample_size=8, bw_method=0.5), S('FKDE', bw_method='bogus'),
            S('FKDE', weights=[1.0, 1.0, 1.0, 1.0, 1.0, 5.0])]
    return out


def wrapper_specs():
    W = L.spec_wrapper
    return [
        W(candidates=[('class', 'FGaussian'), ('class', 'FUniform')]),
        W(candidates=[('name', GAUSS), ('class', 'FTrunc')], random_state=7),
        W(candidates=[('inst', L.spec_scipy('FTrunc', -60.0, 250.0)), ('class', 'FGaussian')]),
        W(parametric='PARAMETRIC', bounded='BOUNDED'),
        W(parametric='NON_PARAMETRIC'),
        W(parametric='NON_PARAMETRIC', random_state=13),
        W(bounded='SEMI_BOUNDED', random_state=2),
        W(candidates=[('class', 'FGaussian'), ('class', 'FUniform')], selection_sample_size=3),
        W(candidates=[('class', 'FUniform'), ('class', 'FGaussian'), ('class', 'FStudentT')], selection_sample_size=10,
          random_state=4),
        W(),
    ]


def gm_specs():
    G = L.spec_gm
    return [
        G(distribution=('class', 'FGaussian')),
        G(distribution=('name', GAUSS), random_state=3),
        G(distribution={'a': ('class', 'FUniform'), 'b': ('inst', L.spec_scipy('FTrunc', -60.0, 250.0))}),
        G(distribution=('class', 'FKDE'), random_state=8),
        G(distribution=('inst', L.spec_scipy('FKDE', sample_size=6))),
        G(distribution=('winst', L.spec_wrapper(candidates=[('class', 'FGaussian'), ('class', 'FUniform')]))),
        G(),
    ]


def biv_specs():
    out = []
    for t in ('Clayton', 'Frank', 'Gumbel'):
        out += [L.spec_biv(t), L.spec_biv(t, random_state=5)]
    return out


KINDS = {'scipy': ['cdf', 'pdf', 'ppf', 'logpdf', 'sample'], 'wrapper': ['cdf', 'pdf', 'ppf', 'logpdf', 'sample'],
         'biv': ['cdf', 'pdf', 'partial', 'ppf', 'logpdf', 'sample'], 'gm': ['cdf', 'pdf', 'logpdf', 'sample']}
PLAIN_FIT = ('FGaussian', 'FBeta', 'FGamma', 'FStudentT', 'FLogLaplace')


def usable(spec, d):
    """is the dataset inside the model's domain for this object?"""
    if spec['kind'] == 'scipy':
        if d.has_nan:
            return False
        if spec['family'] in PLAIN_FIT and (d.const is None or spec['family'] == 'FStudentT'):
            return L.sfit_oracle(spec['family'], d) is not None
    return True


def gen_history(rng, spec, pools):
    kind = spec['kind']
    pool = {'scipy': pools['uni'], 'wrapper': pools['uni'], 'biv': pools['biv'], 'gm': pools['tab']}[kind]
    names = [k for k in pool if usable(spec, pool[k])]
    if kind == 'wrapper':
        names = names + ['__nan__']
    n_ev = int(rng.integers(3, 9))
    evs = []
    for i in range(n_ev):
        r = rng.random()
        if r < 0.42 or (i == 1 and not any(e[0] == 'fit' for e in evs)):
            nm = names[int(rng.integers(0, len(names)))]
            evs.append(('fit', pools['uni_nan'] if nm == '__nan__' else pool[nm]))
        elif r < 0.82:
            k = KINDS[kind][int(rng.integers(0, len(KINDS[kind])))]
            evs.append(('query', k, int(rng.integers(1, 4))))
        elif r < 0.93:
            evs.append(('to_dict',))
        else:
            evs.append(('get_instance',))
    if kind == 'biv' and any(e[0] == 'fit' and e[1].label.startswith('monotone') for e in evs):
        # tau = 1: theta = inf / 4.5e15 / 709.78; whether brentq then fails inside percent_point is numerics (C08, F14), not life-cycle
        evs = [('query', 'cdf', e[2]) if e[0] == 'query' and e[1] in ('ppf', 'sample') else e for e in evs]
    return evs


def first_diff(model, real):
    for i, (a, b) in enumerate(zip(model, real)):
        if not L.same(a, b):
            return i
    return min(len(model), len(real)) if len(model) != len(real) else None


def corr(ctx, n_per_kind):
    rng = np.random.default_rng(ctx.seed + 1900)
    nprng = np.random.default_rng(ctx.seed + 19)
    pools = {'uni': uni_pool(nprng), 'biv': biv_pool(nprng), 'tab': table_pool(nprng),
             'uni_nan': L.Uni([1.0, np.nan, 3.0], 'with-nan')}
    plans = []
    for kind, specs in (('scipy', scipy_specs()), ('wrapper', wrapper_specs()), ('biv', biv_specs()), ('gm', gm_specs())):
        n = n_per_kind[kind]
        order = list(range(len(specs)))
        for j in range(n):
            spec = specs[order[j % len(specs)]]
            plans.append((spec, gen_history(rng, spec, pools)))
    runner = L.Runner()
    runs, exprs = [], []
    for spec, evs in plans:
        try:
            r = runner.run(spec, evs)
        except Exception as ex:     # the harness itself failed: fail closed
            import traceback
            ctx.obligation(f'corr:harness:{L.describe_spec(spec)}', False, 'correspondence', traceback.format_exc()[-1500:])
            continue
        runs.append((spec, evs, r))
        exprs.append(L.trace_expr(spec, evs, r['tab']))
    outs = cases.run_vm_cases(ctx, 'Cases_C19', L.IMPORTS, exprs, per_file=max(4, len(exprs) // 16 + 1),
                              scope_open='Unset Printing Records.\n')
    mix = {}
    for i, ((spec, evs, r), o) in enumerate(zip(runs, outs)):
        desc = L.describe_spec(spec)
        hist = [L.describe_event(e) for e in evs]
        real = r['trace']
        try:
            model = L.canon_trace(o) if o is not None else None
        except Exception as ex:
            model = None
            o = f'UNPARSED ({ex}): {str(o)[:400]}'
        ok = model is not None and len(model) == len(real) and first_diff(model, real) is None
        bad_values = [s for s, v in r['value_checks'] if not v]
        ctx.obligation(f'corr:history{i}:{desc}', ok and not bad_values, 'correspondence',
                       '' if ok and not bad_values else f'history={hist}\nfirst difference (model vs library): '
                       f'{L.explain_diff(model, real) if model is not None else str(o)[:600]}\nvalue-check failures at steps {bad_values}')
        for e in evs:
            mix[e[0] if e[0] != 'query' else 'query:' + e[1]] = mix.get(e[0] if e[0] != 'query' else 'query:' + e[1], 0) + 1
        ctx.case(('hist', desc, tuple(hist)),
                 {'object': desc, 'history': hist,
                  'observations': [str(t[0])[:90] for t in real][:8]},
                 nontrivial=sum(1 for e in evs if e[0] == 'fit') >= 1 and len(evs) >= 3)
        if not ok:
            k = first_diff(model, real) if model is not None else None
            what = (f'{desc}: model and library disagree at step {k} ({hist[k] if k is not None and k < len(hist) else "?"}) of history {hist}: '
                    f'model {model[k] if model and k is not None and k < len(model) else o} vs library {real[k] if k is not None and k < len(real) else None}')
            ctx.violation(f'corr:lifecycle:{spec["kind"]}:{spec.get("family", spec.get("ctype", ""))}', what[:1500],
                          {'object': desc, 'history': hist, 'step': k, 'model': str(model)[:3000], 'library': str(real)[:3000],
                           'repro': repro_history(spec, evs, k)})
        elif bad_values:
            ctx.violation(f'corr:value:{spec["kind"]}:{spec.get("family", spec.get("ctype", ""))}',
                          f'{desc}: the values returned at steps {bad_values} of {hist} are not those of the behaviour observed at the '
                          f'scipy boundary', {'object': desc, 'history': hist, 'repro': repro_history(spec, evs, bad_values[0])})
    ctx.extra['history_event_mix'] = mix
    ctx.extra['histories'] = len(runs)


def repro_history(spec, evs, step):
    """self-contained replay of one history: prints the library's canonical trace; exits 1 (a model/implementation
    disagreement cannot be re-decided without Coq: re-run ./check C19)"""
    data = []
    for e in evs:
        if e[0] == 'fit':
            d = e[1]
            if isinstance(d, L.Table):
                data.append(('fit', 'table', d.label, json.loads(d.frame.to_json(orient='split')) if hasattr(d.frame, 'to_json') else d.frame.tolist()))
            else:
                data.append(('fit', 'array', d.label, [[None if np.isnan(v) else float(v) for v in row] for row in np.atleast_2d(d.x).tolist()]
                             if d.x.ndim == 2 else [None if np.isnan(v) else float(v) for v in d.x.tolist()]))
        else:
            data.append(e)
    return ('import json, sys, numpy as np, pandas as pd\nfrom vf import lifecycle as L\n'
            f'spec = {spec!r}\nraw = json.loads({json.dumps(json.dumps(data))})\n'
            'evs = []\nfor e in raw:\n'
            '    if e[0] == "fit" and e[1] == "table":\n'
            '        f = pd.DataFrame(e[3]["data"], columns=e[3]["columns"]) if isinstance(e[3], dict) else np.array(e[3])\n'
            '        evs.append(("fit", L.Table(f, e[2])))\n'
            '    elif e[0] == "fit":\n'
            '        a = np.array([[np.nan if v is None else v for v in r] for r in e[3]]) if e[3] and isinstance(e[3][0], list) else np.array([np.nan if v is None else v for v in e[3]], dtype=float)\n'
            '        evs.append(("fit", L.Biv(a, e[2]) if spec["kind"] == "biv" else L.Uni(a, e[2])))\n'
            '    else:\n        evs.append(tuple(e))\n'
            'r = L.Runner().run(spec, evs)\n'
            'for i, t in enumerate(r["trace"]):\n    print(i, L.describe_event(evs[i]), t)\n'
            f'print("disagreement with the Coq model at step {step}; value checks:", r["value_checks"])\nsys.exit(1)\n')


# =====================================================================================================
# run
# =====================================================================================================
def run(ctx):
    quick = ctx.tier == 'quick'
    text, pyfacts, problems = gen_facts()
    ctx.write('Gen_c19facts.v', text)
    for p in problems:
        ctx.obligation('translation:c19facts', False, 'translation', p)
    ctx.extra['facts'] = {k: v for k, v in pyfacts.items() if k != 'shapes'}
    ctx.copy_src('Props/C19.v')
    ctx.compile(['Gen_c19facts.v', 'C19.v'])
    ctx.rule('correspondence: random histories (3..8 events: fit 42% / query 40% (cdf,pdf,ppf,logpdf,sample[,partial]) / to_dict 11% / '
             'get_instance 7%) per object configuration: 8 ScipyModel families (default, seeded; TruncatedGaussian without/with one/both '
             'bounds; GaussianKDE with sample_size 1/5/8/30, bw_method scott/silverman/scalar/invalid, weights), Univariate wrapper '
             '(candidate lists as classes/names/instances, parametric/bounded filters, selection_sample_size, seeded), Clayton/Frank/Gumbel, '
             'GaussianMultivariate (class/name/dict/instance/wrapper distributions); datasets: constant, single point, tiny, X, 10X, '
             'normal/gamma/beta/uniform samples of 3..120 points, NaN; (n,2) samples with positive/negative/zero/perfect dependence, constant '
             'column, out of range, empty; tables numeric/empty/strings/NaN/ndarray/constant column.  Each step is run on the real library '
             'with recorders at the scipy/numpy boundary and canonicalised to the BEHAVIOUR the caller gets (degenerate at c | scipy family + '
             'params | KDE object + bounds source | error class | which generator was consumed); the returned numbers are checked against '
             'that behaviour; the same history is evaluated by vm_compute of Lifecycle.step over the captured oracle table and compared '
             '(numbers within 1e-9 relative).')
    corr(ctx, {'scipy': 62, 'wrapper': 20, 'biv': 18, 'gm': 14} if quick else {'scipy': 620, 'wrapper': 160, 'biv': 150, 'gm': 90})
    ctx.trusted += ['coq/Model/Lifecycle.v is a hand-written transcription of the fit/query/serialisation paths of the ScipyModel families, '
                    'Univariate, Bivariate, GaussianMultivariate and get_instance (tied by the history correspondence and the AST facts)',
                    'tools/vf/lifecycle.py: recorders at the scipy/numpy boundary, canonicalisation of observations, oracle tables',
                    'scipy/numpy results enter the model as table values (no claim about scipy itself)']
