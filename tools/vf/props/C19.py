"""C19 — model life-cycle: fit is a pure function of its inputs; misuse fails loudly.

(1) proofs: coq/Props/C19.v restates the theorems of Spec/LifecycleProofs.v (+ Model/LifecycleTab.v) and ties
    them to the CURRENT source through AST-generated facts (Gen_c19facts.v: @store_args classes, @check_valid_values
    fits, methods that call check_fit() first, attributes written by fit paths).
(2) correspondence: random fit/query histories per class on the real library vs Lifecycle.step evaluated by
    vm_compute with the oracle values captured at the scipy/numpy boundary (tools/vf/lifecycle.py).
(3) witness search: the property itself on the real classes (refit-vs-fresh, unfitted raises, validation,
    get_instance, no dependence on uninitialised memory).
"""
COQCHK = ['C19_utils', 'C19_gm']   # cones without Coquelicot / Interval: coqchk -o re-checks them in about a minute each (thorough tier)
import ast
from vf import srcnorm as _srcnorm
import json
import os
import warnings

import numpy as np

from .. import cases, facts, gmctlgen, unictlgen, uniwrapgen, utilsgen
from .. import lifecycle as L
from ..core import REPO

PKG = os.path.join(REPO, 'copulas')


# =====================================================================================================
# (1) AST facts
# =====================================================================================================
QUERY_METHODS = ('probability_density', 'log_probability_density', 'cumulative_distribution', 'percent_point',
                 'partial_derivative', 'sample', 'to_dict')


def _first_stmt(fn):
    body = [s for s in fn.body if not (isinstance(s, ast.Expr) and isinstance(s.value, ast.Constant))]
    return body[0] if body else None


def _calls_check_fit_first(fn):
    s = _first_stmt(fn)
    return bool(isinstance(s, ast.Expr) and isinstance(s.value, ast.Call) and ast.unparse(s.value.func) == 'self.check_fit'
                and not s.value.args and not s.value.keywords)


def _self_attrs_written(fn):
    out = set()
    for n in ast.walk(fn):
        targets = []
        if isinstance(n, ast.Assign):
            targets = n.targets
        elif isinstance(n, (ast.AugAssign, ast.AnnAssign)):
            targets = [n.target]
        for t in targets:
            for e in ast.walk(t):
                if isinstance(e, ast.Attribute) and isinstance(e.value, ast.Name) and e.value.id == 'self':
                    out.add(e.attr)
    return sorted(out)


def _check_fit_shape(fn):
    """canonical text of a check_fit body (docstring removed)"""
    body = [s for s in fn.body if not (isinstance(s, ast.Expr) and isinstance(s.value, ast.Constant))]
    return ' ;; '.join(' '.join(ast.unparse(s).split()) for s in body)


def _decorator_shape(fn):
    """canonical text of copulas.utils.check_valid_values' inner function"""
    inner = next((s for s in fn.body if isinstance(s, ast.FunctionDef)), None)
    if inner is None:
        return None
    body = [s for s in inner.body if not (isinstance(s, ast.Expr) and isinstance(s.value, ast.Constant))]
    return ' ;; '.join(' '.join(ast.unparse(s).split()) for s in body)


def gen_facts():
    """-> (Coq text, dict of python facts, list of translation problems)"""
    store_args, valid_fits, checked, unchecked, writes, problems = [], [], [], [], [], []
    shapes = {}
    for path in facts.py_files():
        mod = os.path.relpath(path, REPO)[:-3].replace('/', '.')
        try:
            tree = _srcnorm.parse_file(path)
        except SyntaxError as ex:
            problems.append(f'{mod}: {ex}')
            continue
        for top in tree.body:
            if isinstance(top, ast.FunctionDef) and mod == 'copulas.utils' and top.name == 'check_valid_values':
                shapes['check_valid_values'] = _decorator_shape(top)
            if isinstance(top, ast.FunctionDef) and mod == 'copulas.utils' and top.name == 'get_instance':
                body = [s for s in top.body if not (isinstance(s, ast.Expr) and isinstance(s.value, ast.Constant))]
                shapes['get_instance'] = ' ;; '.join(' '.join(ast.unparse(s).split()) for s in body)
            if isinstance(top, ast.FunctionDef) and mod == 'copulas.utils' and top.name == 'store_args':
                inner = next((s for s in top.body if isinstance(s, ast.FunctionDef)), None)
                shapes['store_args'] = None if inner is None else ' ;; '.join(
                    ' '.join(ast.unparse(s).split()) for s in inner.body)
            if not isinstance(top, ast.ClassDef):
                continue
            for m in top.body:
                if not isinstance(m, ast.FunctionDef):
                    continue
                decs = facts.dec_names(m)
                if m.name == '__init__' and 'store_args' in decs:
                    store_args.append(top.name)
                if m.name == 'fit' and 'check_valid_values' in decs:
                    # the validation must be the OUTERMOST decorator (runs before anything else)
                    valid_fits.append((top.name, decs[0] == 'check_valid_values'))
                if m.name == 'check_fit':
                    shapes[f'check_fit:{top.name}'] = _check_fit_shape(m)
                if m.name == '_check_constant_value' and top.name == 'Univariate':
                    shapes['check_constant_value'] = _check_fit_shape(m)      # F5 fix: resets the degenerate state
                if m.name in QUERY_METHODS and not facts.is_abstract(m) and not m.name.startswith('_'):
                    (checked if _calls_check_fit_first(m) else unchecked).append((top.name, m.name))
                if m.name in ('fit', '_fit', '_fit_constant', '_set_constant_value', '_replace_constant_methods',
                              '_check_constant_value', '_get_model', '_compute_theta', '_set_params'):
                    writes.append((top.name, m.name, _self_attrs_written(m)))
    cs = facts.coq_string
    lines = ['(* GENERATED by tools/vf/props/C19.py from the AST of the tree under test -- regenerated on every run *)',
             'From Coq Require Import List String Bool.', 'Import ListNotations.', 'Open Scope string_scope.',
             '(* classes whose __init__ is decorated with @store_args *)',
             'Definition store_args_classes : list string := [' + '; '.join(cs(c) for c in sorted(store_args)) + '].',
             '(* classes whose fit is decorated with @check_valid_values, and whether it is the outermost decorator *)',
             'Definition validated_fits : list (string * bool) := ['
             + '; '.join(f'({cs(c)}, {"true" if o else "false"})' for c, o in sorted(valid_fits)) + '].',
             '(* public, non-abstract query methods whose FIRST statement is self.check_fit() *)',
             'Definition check_fit_first : list (string * string) := ['
             + '; '.join(f'({cs(c)}, {cs(m)})' for c, m in sorted(checked)) + '].',
             '(* public, non-abstract query methods that do NOT start with self.check_fit() *)',
             'Definition no_check_fit_first : list (string * string) := ['
             + '; '.join(f'({cs(c)}, {cs(m)})' for c, m in sorted(unchecked)) + '].',
             '(* self.<attr> assignments of the fit paths: (class, method, attributes) *)',
             'Definition fit_writes : list (string * string * list string) := ['
             + ';\n  '.join(f'({cs(c)}, {cs(m)}, [{"; ".join(cs(a) for a in w)}])' for c, m, w in sorted(writes)) + '].',
             '(* bodies of the guards, docstrings removed *)',
             'Definition guard_shapes : list (string * string) := ['
             + ';\n  '.join(f'({cs(k)}, {cs(v or "")})' for k, v in sorted(shapes.items())) + '].']
    py = {'store_args': sorted(store_args), 'validated_fits': sorted(valid_fits), 'check_fit_first': sorted(checked),
          'no_check_fit_first': sorted(unchecked), 'fit_writes': sorted(writes), 'shapes': shapes}
    for need in ('check_valid_values', 'get_instance', 'store_args', 'check_constant_value', 'check_fit:Univariate', 'check_fit:Multivariate',
                 'check_fit:Bivariate'):
        if not shapes.get(need):
            problems.append(f'cannot find {need} in the source')
    return '\n'.join(lines) + '\n', py, problems


# =====================================================================================================
# (2) correspondence: histories
# =====================================================================================================
GAUSS = 'copulas.univariate.gaussian.GaussianUnivariate'


def uni_pool(rng):
    X6 = np.array([1., 2, 3, 4, 5, 7])
    pool = {
        'const3': L.Uni(np.full(5, 3.0), 'const3x5'),
        'constneg': L.Uni(np.full(4, -1.5), 'const-1.5x4'),
        'single': L.Uni([2.0], 'single2.0'),
        'X6': L.Uni(X6, 'X6'),
        'X6x10': L.Uni(10 * X6, '10*X6'),
        'tiny2': L.Uni([0.5, 1.5], 'tiny2'),
        'N50': L.Uni(rng.normal(1.0, 2.0, 50), 'normal50'),
        'N120': L.Uni(rng.normal(-3.0, 0.5, 120), 'normal120'),
        'G40': L.Uni(rng.gamma(2.0, 1.5, 40) + 0.5, 'gamma40'),
        'B30': L.Uni(rng.beta(2.0, 3.0, 30), 'beta30'),
        'U20': L.Uni(rng.uniform(5, 9, 20), 'uniform20'),
    }
    for i in range(3):
        n = int(rng.choice([3, 6, 20, 60]))
        loc, sc = float(rng.uniform(-10, 40)), float(rng.uniform(0.1, 8))
        kind = int(rng.integers(0, 3))
        x = [rng.normal(loc, sc, n), loc + rng.gamma(2.0, sc, n), rng.uniform(loc, loc + sc, n)][kind]
        pool[f'R{i}'] = L.Uni(x, f'random{i}:{["normal", "gamma", "uniform"][kind]}{n}')
    return pool


def biv_pool(rng):
    def dep(n, a, flip=False):
        u = rng.uniform(size=(n, 2))
        u[:, 1] = a * u[:, 0] + (1 - a) * u[:, 1]
        if flip:
            u[:, 1] = 1 - u[:, 1]
        return u
    mono = np.column_stack([np.linspace(.05, .95, 12)] * 2)
    return {
        'pos': L.Biv(dep(60, 0.6), 'pos60'),
        'pos2': L.Biv(dep(25, 0.3), 'pos25'),
        'neg': L.Biv(dep(50, 0.6, True), 'neg50'),
        'constcol': L.Biv(np.column_stack([np.full(6, .5), np.linspace(.1, .9, 6)]), 'constant-column'),
        'outside': L.Biv(np.array([[.1, .2], [1.5, .4], [.3, .9]]), 'outside-unit'),
        'empty': L.Biv(np.zeros((0, 2)), 'empty'),
        'mono': L.Biv(mono, 'monotone(tau=1)'),
        'tau0': L.Biv(np.array([[.1, .2], [.2, .4], [.3, .1], [.4, .3]]), 'tau0'),
    }


def table_pool(rng):
    import pandas as pd
    n = 40
    a = rng.normal(2, 1, n)
    t3 = pd.DataFrame({'a': a, 'b': 0.6 * a + rng.normal(0, 1, n), 'c': rng.gamma(2, 1, n) + 1})
    tc = pd.DataFrame({'a': rng.normal(size=15), 'k': np.full(15, 4.0), 'z': rng.uniform(0, 1, 15)})
    t2 = pd.DataFrame({'b': rng.normal(10, 3, 25), 'a': rng.uniform(0, 1, 25)})
    arr = np.column_stack([rng.normal(size=12), rng.normal(size=12) * 2 + 1])
    return {
        't3': L.Table(t3, 't3(a,b,c)x40'), 'tc': L.Table(tc, 'tc(a,k=const,z)x15'), 't2': L.Table(t2, 't2(b,a)x25'),
        'arr': L.Table(arr, 'ndarray12x2'),
        'empty': L.Table(pd.DataFrame(), 'empty-frame'),
        'strings': L.Table(pd.DataFrame({'a': ['x', 'y', 'z']}), 'strings'),
        'nan': L.Table(pd.DataFrame({'a': [1.0, np.nan, 3.0], 'b': [1.0, 2.0, 3.0]}), 'with-nan'),
    }


def scipy_specs():
    S = L.spec_scipy
    out = []
    for f in ('FGaussian', 'FUniform', 'FBeta', 'FGamma', 'FStudentT', 'FLogLaplace'):
        out += [S(f), S(f, random_state=7)]
    out += [S('FTrunc'), S('FTrunc', random_state=11), S('FTrunc', -60.0, 250.0), S('FTrunc', minimum=-60.0),
            S('FTrunc', maximum=250.0, random_state=3)]
    out += [S('FKDE'), S('FKDE', random_state=5), S('FKDE', sample_size=5), S('FKDE', sample_size=30, random_state=9),
            S('FKDE', sample_size=1), S('FKDE', bw_method='silverman'), S('FKDE', bw_method=0.3),
            S('FKDE', sample_size=8, bw_method=0.5), S('FKDE', bw_method='bogus'),
            S('FKDE', weights=[1.0, 1.0, 1.0, 1.0, 1.0, 5.0])]
    return out


def wrapper_specs():
    W = L.spec_wrapper
    return [
        W(candidates=[('class', 'FGaussian'), ('class', 'FUniform')]),
        W(candidates=[('name', GAUSS), ('class', 'FTrunc')], random_state=7),
        W(candidates=[('inst', L.spec_scipy('FTrunc', -60.0, 250.0)), ('class', 'FGaussian')]),
        W(parametric='PARAMETRIC', bounded='BOUNDED'),
        W(parametric='NON_PARAMETRIC'),
        W(parametric='NON_PARAMETRIC', random_state=13),
        W(bounded='SEMI_BOUNDED', random_state=2),
        W(candidates=[('class', 'FGaussian'), ('class', 'FUniform')], selection_sample_size=3),
        W(candidates=[('class', 'FUniform'), ('class', 'FGaussian'), ('class', 'FStudentT')], selection_sample_size=10,
          random_state=4),
        W(),
    ]


def gm_specs():
    G = L.spec_gm
    return [
        G(distribution=('class', 'FGaussian')),
        G(distribution=('name', GAUSS), random_state=3),
        G(distribution={'a': ('class', 'FUniform'), 'b': ('inst', L.spec_scipy('FTrunc', -60.0, 250.0))}),
        G(distribution=('class', 'FKDE'), random_state=8),
        G(distribution=('inst', L.spec_scipy('FKDE', sample_size=6))),
        G(distribution=('winst', L.spec_wrapper(candidates=[('class', 'FGaussian'), ('class', 'FUniform')]))),
        G(),
    ]


def biv_specs():
    out = []
    for t in ('Clayton', 'Frank', 'Gumbel'):
        out += [L.spec_biv(t), L.spec_biv(t, random_state=5)]
    return out


KINDS = {'scipy': ['cdf', 'pdf', 'ppf', 'logpdf', 'sample'], 'wrapper': ['cdf', 'pdf', 'ppf', 'logpdf', 'sample'],
         'biv': ['cdf', 'pdf', 'partial', 'ppf', 'logpdf', 'sample'], 'gm': ['cdf', 'pdf', 'logpdf', 'sample']}
PLAIN_FIT = ('FGaussian', 'FBeta', 'FGamma', 'FStudentT', 'FLogLaplace')


def usable(spec, d):
    """is the dataset inside the model's domain for this object?"""
    if spec['kind'] == 'scipy':
        if d.has_nan:
            return False
        if spec['family'] in PLAIN_FIT and (d.const is None or spec['family'] == 'FStudentT'):
            return L.sfit_oracle(spec['family'], d) is not None
    return True


def gen_history(rng, spec, pools):
    kind = spec['kind']
    pool = {'scipy': pools['uni'], 'wrapper': pools['uni'], 'biv': pools['biv'], 'gm': pools['tab']}[kind]
    names = [k for k in pool if usable(spec, pool[k])]
    if kind == 'wrapper':
        names = names + ['__nan__']
    n_ev = int(rng.integers(3, 9))
    evs = []
    for i in range(n_ev):
        r = rng.random()
        if r < 0.42 or (i == 1 and not any(e[0] == 'fit' for e in evs)):
            nm = names[int(rng.integers(0, len(names)))]
            evs.append(('fit', pools['uni_nan'] if nm == '__nan__' else pool[nm]))
        elif r < 0.80:
            k = KINDS[kind][int(rng.integers(0, len(KINDS[kind])))]
            evs.append(('query', k, int(rng.integers(1, 4))))
        elif r < 0.90:
            evs.append(('to_dict',))
        elif r < 0.95:
            evs.append(('get_instance',))
        else:
            evs.append(('roundtrip',))
    if kind == 'biv' and any(e[0] == 'fit' and e[1].label.startswith('monotone') for e in evs):
        # tau = 1: theta = inf / 4.5e15 / 709.78; whether brentq then fails inside percent_point is numerics (C08, F14), not life-cycle
        evs = [('query', 'cdf', e[2]) if e[0] == 'query' and e[1] in ('ppf', 'sample') else e for e in evs]
    return evs


def scripted(pools):
    """the witnesses of the refuted theorems and the boundary cases, in every run"""
    u, b, t = pools['uni'], pools['biv'], pools['tab']
    S, q = L.spec_scipy, lambda k, n=2: ('query', k, n)   # noqa: E731
    out = []
    for f in L.ALL_FAMILIES:      # F5: [fit const; fit X]
        out.append((S(f), [('fit', u['const3']), q('cdf'), q('sample'), ('fit', u['G40']), q('cdf'), q('pdf'), q('ppf'), q('sample'), ('to_dict',)]))
    out.append((S('FTrunc'), [('fit', u['X6']), ('to_dict',), ('fit', u['X6x10']), ('to_dict',), q('cdf'), ('get_instance',), ('fit', u['X6x10']), ('to_dict',)]))
    out.append((S('FTrunc', 0.0, random_state=7), [('fit', u['X6']), ('to_dict',), ('get_instance',), ('fit', u['G40']), ('to_dict',), q('sample')]))
    out.append((S('FKDE'), [('fit', u['N50']), ('fit', u['X6']), ('to_dict',), q('sample', 3), q('cdf'), ('get_instance',), ('fit', u['X6']), ('to_dict',)]))
    out.append((S('FKDE'), [('fit', u['N50']), ('fit', u['const3']), ('to_dict',), q('cdf')]))
    out.append((S('FKDE', sample_size=1), [('fit', u['N50']), q('cdf'), ('to_dict',), ('fit', u['const3']), ('to_dict',), ('fit', u['N50']), q('pdf')]))
    out.append((S('FKDE', sample_size=5, random_state=3), [('fit', u['N50']), ('to_dict',), q('sample', 2), ('fit', u['X6']), ('to_dict',), q('sample', 2)]))
    out.append((S('FGaussian', random_state=42), [('fit', u['X6']), q('sample'), ('get_instance',), ('fit', u['X6']), q('sample')]))
    W = L.spec_wrapper
    out.append((W(candidates=[('class', 'FGaussian'), ('class', 'FUniform')], selection_sample_size=3), [('fit', u['N50']), ('to_dict',), q('cdf'), ('fit', u['N50']), ('to_dict',)]))
    out.append((W(candidates=[('class', 'FGaussian')]), [('fit', u['X6']), q('cdf'), ('fit', pools['uni_nan']), q('cdf'), ('to_dict',), q('sample'), ('fit', u['X6']), q('cdf')]))
    out.append((W(candidates=[('class', 'FGaussian')]), [('fit', pools['uni_nan']), q('cdf'), ('to_dict',)]))
    out.append((W(candidates=[('class', 'FGaussian'), ('class', 'FUniform')], random_state=5), [('fit', u['const3']), q('sample'), ('fit', u['U20']), q('sample'), q('sample'), ('get_instance',), q('sample')]))
    for c in ('Clayton', 'Frank', 'Gumbel'):
        B = L.spec_biv
        out.append((B(c), [q('sample'), ('to_dict',), q('cdf'), q('ppf'), q('partial'), q('logpdf'), ('get_instance',)]))
        out.append((B(c), [('fit', b['pos']), q('cdf'), ('fit', b['neg']), q('cdf'), q('sample'), ('to_dict',)]))
        out.append((B(c), [('fit', b['pos']), ('fit', b['constcol']), q('cdf'), ('to_dict',), q('sample')]))
        out.append((B(c, random_state=2), [('fit', b['tau0']), q('cdf'), q('pdf'), q('sample'), ('to_dict',), ('fit', b['pos2']), q('sample')]))
        out.append((B(c), [('fit', b['constcol']), q('cdf'), q('sample'), ('to_dict',), ('fit', b['outside']), ('fit', b['empty']), ('to_dict',)]))
    G = L.spec_gm
    out.append((G(distribution=('class', 'FGaussian')), [('fit', t['t3']), ('to_dict',), ('fit', t['empty']), ('fit', t['strings']), ('fit', t['nan']), ('to_dict',), q('sample')]))
    out.append((G(), [('fit', t['empty']), q('pdf'), ('to_dict',), ('fit', t['tc']), q('pdf'), ('fit', t['t2']), ('to_dict',)]))
    return [(spec, evs) for spec, evs in out if all(e[0] != 'fit' or usable(spec, e[1]) for e in evs)]


def first_diff(model, real):
    for i, (a, b) in enumerate(zip(model, real)):
        if not L.same(a, b):
            return i
    return min(len(model), len(real)) if len(model) != len(real) else None


def corr(ctx, n_per_kind):
    rng = np.random.default_rng(ctx.seed + 1900)
    nprng = np.random.default_rng(ctx.seed + 19)
    pools = {'uni': uni_pool(nprng), 'biv': biv_pool(nprng), 'tab': table_pool(nprng),
             'uni_nan': L.Uni([1.0, np.nan, 3.0], 'with-nan')}
    plans = scripted(pools)
    for kind, specs in (('scipy', scipy_specs()), ('wrapper', wrapper_specs()), ('biv', biv_specs()), ('gm', gm_specs())):
        n = n_per_kind[kind]
        order = list(range(len(specs)))
        for j in range(n):
            spec = specs[order[j % len(specs)]]
            plans.append((spec, gen_history(rng, spec, pools)))
    runner = L.Runner()
    runs, exprs = [], []
    for spec, evs in plans:
        try:
            r = runner.run(spec, evs)
        except Exception as ex:     # the harness itself failed: fail closed
            import traceback
            ctx.obligation(f'corr:harness:{L.describe_spec(spec)}', False, 'correspondence', traceback.format_exc()[-1500:])
            continue
        runs.append((spec, evs, r))
        exprs.append(L.trace_expr(spec, evs, r['tab']))
    outs = cases.run_vm_cases(ctx, 'Cases_C19', L.IMPORTS, exprs, per_file=max(4, len(exprs) // 16 + 1),
                              scope_open='Unset Printing Records.\n')
    mix = {}
    for i, ((spec, evs, r), o) in enumerate(zip(runs, outs)):
        desc = L.describe_spec(spec)
        hist = [L.describe_event(e) for e in evs]
        real = r['trace']
        try:
            model = L.canon_trace(o) if o is not None else None
        except Exception as ex:
            model = None
            o = f'UNPARSED ({ex}): {str(o)[:400]}'
        ok = model is not None and len(model) == len(real) and first_diff(model, real) is None
        bad_values = [s for s, v in r['value_checks'] if not v]
        ctx.obligation(f'corr:history{i}:{desc}', ok and not bad_values, 'correspondence',
                       '' if ok and not bad_values else f'history={hist}\nfirst difference (model vs library): '
                       f'{L.explain_diff(model, real) if model is not None else str(o)[:600]}\nvalue-check failures at steps {bad_values}')
        for e in evs:
            mix[e[0] if e[0] != 'query' else 'query:' + e[1]] = mix.get(e[0] if e[0] != 'query' else 'query:' + e[1], 0) + 1
        ctx.case(('hist', desc, tuple(hist)),
                 {'object': desc, 'history': hist,
                  'observations': [str(t[0])[:90] for t in real][:8]},
                 nontrivial=sum(1 for e in evs if e[0] == 'fit') >= 1 and len(evs) >= 3)
        if not ok:
            k = first_diff(model, real) if model is not None else None
            what = (f'{desc}: model and library disagree at step {k} ({hist[k] if k is not None and k < len(hist) else "?"}) of history {hist}: '
                    f'model {model[k] if model and k is not None and k < len(model) else o} vs library {real[k] if k is not None and k < len(real) else None}')
            ctx.violation(f'corr:lifecycle:{spec["kind"]}:{spec.get("family", spec.get("ctype", "any"))}', what[:1500],
                          {'object': desc, 'history': hist, 'step': k, 'model': str(model)[:3000], 'library': str(real)[:3000],
                           'repro': repro_history(spec, evs, k, model)})
        elif bad_values:
            ctx.violation(f'corr:value:{spec["kind"]}:{spec.get("family", spec.get("ctype", "any"))}',
                          f'{desc}: the values returned at steps {bad_values} of {hist} are not those of the behaviour observed at the '
                          f'scipy boundary', {'object': desc, 'history': hist, 'repro': repro_history(spec, evs, bad_values[0], model)})
    ctx.extra['history_event_mix'] = mix
    ctx.extra['histories'] = len(runs)


def repro_history(spec, evs, step, model=None):
    """self-contained replay of one history: re-runs it on the library and compares the canonical trace with the model's
    trace recorded at check time (exit 1 iff they still differ)"""
    data = []
    for e in evs:
        if e[0] == 'fit':
            d = e[1]
            if isinstance(d, L.Table):
                data.append(('fit', 'table', d.label, json.loads(d.frame.to_json(orient='split')) if hasattr(d.frame, 'to_json') else d.frame.tolist()))
            else:
                data.append(('fit', 'array', d.label, [[None if np.isnan(v) else float(v) for v in row] for row in d.x.tolist()]
                             if d.x.ndim == 2 else [None if np.isnan(v) else float(v) for v in d.x.tolist()]))
        else:
            data.append(e)
    return ('import json, sys, numpy as np, pandas as pd\nfrom vf import lifecycle as L\nnan, inf = float("nan"), float("inf")\n'
            f'spec = {spec!r}\nraw = json.loads({json.dumps(json.dumps(data))})\n'
            f'model = {model!r}\n'
            'evs = []\nfor e in raw:\n'
            '    if e[0] == "fit" and e[1] == "table":\n'
            '        f = pd.DataFrame(e[3]["data"], columns=e[3]["columns"]) if isinstance(e[3], dict) else np.array(e[3])\n'
            '        evs.append(("fit", L.Table(f, e[2])))\n'
            '    elif e[0] == "fit":\n'
            '        a = np.array([[np.nan if v is None else v for v in r] for r in e[3]], dtype=float).reshape(-1, 2) if spec["kind"] == "biv" else np.array([np.nan if v is None else v for v in e[3]], dtype=float)\n'
            '        evs.append(("fit", L.Biv(a, e[2]) if spec["kind"] == "biv" else L.Uni(a, e[2])))\n'
            '    else:\n        evs.append(tuple(e))\n'
            'r = L.Runner().run(spec, evs)\n'
            'for i, t in enumerate(r["trace"]):\n    print(i, L.describe_event(evs[i]), t)\n'
            'bad = [s for s, ok in r["value_checks"] if not ok]\n'
            'd = L.explain_diff(model, r["trace"]) if model is not None else None\n'
            f'print("model (recorded by ./check C19) vs library, first difference:", d, "| value-check failures:", bad)\n'
            'sys.exit(1 if (d or bad or model is None) else 0)\n')


# =====================================================================================================
# (3) witness search: the property on the real classes
# =====================================================================================================
PRE = ('import warnings, numpy as np, pandas as pd\nwarnings.simplefilter("ignore")\n'
       'from vf.props import C19 as P\n')


def _err(ex):
    return type(ex).__name__


def _try(f):
    with warnings.catch_warnings():
        warnings.simplefilter('ignore')
        try:
            return ('ok', f())
        except Exception as ex:
            return ('err', _err(ex))


def _val(v):
    import pandas as pd
    if isinstance(v, pd.DataFrame):
        return v.to_numpy(dtype=float)
    if isinstance(v, dict):
        return L.jsonable(v)
    return np.asarray(v, dtype=float) if v is not None else None


def _same_val(a, b):
    if a[0] != b[0]:
        return False
    if a[0] == 'err':
        return a[1] == b[1]
    x, y = a[1], b[1]
    if isinstance(x, (dict, list)) or isinstance(y, (dict, list)):
        return L.same(L.jsonable(x), L.jsonable(y), rel=1e-9)
    if x is None or y is None:
        return x is None and y is None
    x, y = np.asarray(x, dtype=float), np.asarray(y, dtype=float)
    return x.shape == y.shape and bool(np.allclose(x, y, rtol=1e-9, atol=1e-12, equal_nan=True))


def _replay(fn_call, key):
    return (PRE + f'bad = [b for b in {fn_call} if b[0] == {key!r}]\n'
            'print(bad[0][1] if bad else "no violation")\nraise SystemExit(1 if bad else 0)\n')


def target_classes():
    """name -> dict(make=factory(**overrides), kind, X=target data, A={category: earlier data})"""
    import pandas as pd
    from copulas import univariate as U
    from copulas.bivariate import Clayton, Frank, Gumbel
    from copulas.multivariate import GaussianMultivariate, VineCopula
    r = np.random.RandomState(190)
    X = r.gamma(2.0, 1.5, 40) + 0.5
    Xc = np.full(5, 4.25)
    uniA = {'constant': np.full(7, 2.5), 'scaled': 10 * X, 'bigger': r.gamma(2.0, 1.5, 90) + 0.3, 'smaller': X[:6].copy(),
            'nan': np.array([1.0, np.nan, 3.0, 2.0]), 'empty': np.array([], dtype=float)}
    out = {}
    fams = [U.GaussianUnivariate, U.UniformUnivariate, U.BetaUnivariate, U.GammaUnivariate, U.StudentTUnivariate, U.LogLaplace,
            U.TruncatedGaussian, U.GaussianKDE]
    for cls in fams:
        out[cls.__name__] = dict(make=cls, kind='uni', X=X, Xc=Xc, A=uniA)
    out['TruncatedGaussian(min,max)'] = dict(make=lambda **k: U.TruncatedGaussian(-5.0, 200.0, **k), kind='uni', X=X, Xc=Xc, A=uniA)
    out['GaussianKDE(sample_size=12)'] = dict(make=lambda **k: U.GaussianKDE(sample_size=12, **k), kind='uni', X=X, Xc=Xc, A=uniA)
    out['GaussianKDE(bw_method=0.4)'] = dict(make=lambda **k: U.GaussianKDE(bw_method=0.4, **k), kind='uni', X=X, Xc=Xc, A=uniA)
    out['Univariate'] = dict(make=lambda **k: U.Univariate(candidates=[U.GaussianUnivariate, U.UniformUnivariate, U.TruncatedGaussian], **k),
                             kind='uni', X=X, Xc=Xc, A=uniA)
    out['Univariate(parametric)'] = dict(make=lambda **k: U.Univariate(parametric=U.ParametricType.PARAMETRIC, **k), kind='uni', X=X,
                                         Xc=Xc, A={k: uniA[k] for k in ('constant', 'scaled', 'nan')})
    out['Univariate(selection_sample_size=5)'] = dict(
        make=lambda **k: U.Univariate(candidates=[U.GaussianUnivariate, U.UniformUnivariate], selection_sample_size=5, **k),
        kind='uni', X=X, Xc=Xc, A={k: uniA[k] for k in ('constant', 'bigger')})

    def dep(n, a, flip=False):
        u = r.uniform(size=(n, 2))
        u[:, 1] = a * u[:, 0] + (1 - a) * u[:, 1]
        if flip:
            u[:, 1] = 1 - u[:, 1]
        return u
    B = dep(60, 0.6)
    bivA = {'constant-column': np.column_stack([np.full(6, .5), np.linspace(.1, .9, 6)]), 'scaled': dep(60, 0.2), 'bigger': dep(150, 0.7),
            'smaller': dep(8, 0.5), 'negative-dependence': dep(50, 0.6, True), 'outside-unit': np.array([[.1, .2], [1.5, .4], [.3, .9]]),
            'empty': np.zeros((0, 2)), 'nan': np.array([[.1, .2], [np.nan, .4], [.3, .9]])}
    def repair(vals, like):
        """the multiset `vals` arranged in the rank order of `like`"""
        return np.sort(np.asarray(vals))[np.argsort(np.argsort(np.asarray(like)))]
    # same margins as the target (identical column multisets, hence identical shape / labels / min / max / sorted values), other dependence
    w = dep(60, 0.15)
    bivA['same-margins'] = np.column_stack([repair(B[:, 0], w[:, 0]), repair(B[:, 1], w[:, 1])])
    for cls in (Clayton, Frank, Gumbel):
        out[cls.__name__] = dict(make=cls, kind='biv', X=B, A=bivA)
    n = 45
    a = r.normal(2, 1, n)
    T = pd.DataFrame({'a': a, 'b': 0.6 * a + r.normal(0, 1, n), 'c': r.gamma(2, 1, n) + 1})
    T = (T * 64).round() / 64        # dyadic values: column sums are exact, so a permutation of a column has bit-identical sum / mean
    a2 = r.normal(0, 1, 80)
    tabA = {'constant-column': pd.DataFrame({'a': r.normal(size=12), 'b': np.full(12, 4.0), 'c': r.uniform(size=12)}),
            'scaled': T * 10.0, 'bigger': pd.DataFrame({'a': a2, 'b': a2 + r.normal(0, .5, 80), 'c': r.normal(size=80)}),
            'smaller': T.iloc[:7].copy(), 'other-columns': pd.DataFrame({'x': r.normal(size=20), 'y': r.normal(size=20)}),
            'nan': pd.DataFrame({'a': [1.0, np.nan, 3.0], 'b': [1.0, 2.0, 3.0], 'c': [0.0, 1.0, 0.5]}), 'empty': pd.DataFrame(),
            'strings': pd.DataFrame({'a': ['x', 'y', 'z']})}
    g = r.normal(size=n)
    tabA['same-margins'] = pd.DataFrame({'a': repair(T['a'], g), 'b': repair(T['b'], -g + 0.3 * r.normal(size=n)),
                                         'c': repair(T['c'], g + 0.5 * r.normal(size=n))})
    out['GaussianMultivariate'] = dict(make=GaussianMultivariate, kind='multi', X=T,
                                       A={k: tabA[k] for k in ('constant-column', 'other-columns', 'nan', 'same-margins')})
    out['GaussianMultivariate(GaussianUnivariate)'] = dict(make=lambda **k: GaussianMultivariate(distribution=U.GaussianUnivariate, **k),
                                                           kind='multi', X=T, A=tabA)
    out['GaussianMultivariate({b: KDE(sample_size=10)})'] = dict(
        make=lambda **k: GaussianMultivariate(distribution={'a': U.GaussianUnivariate, 'b': U.GaussianKDE(sample_size=10),
                                                            'c': U.TruncatedGaussian}, **k),
        kind='multi', X=T, A={k: tabA[k] for k in ('constant-column', 'scaled', 'nan')})
    for vt in ('center', 'direct', 'regular'):
        out[f'VineCopula({vt})'] = dict(make=lambda vt=vt, **k: VineCopula(vt, **k), kind='vine', X=T,
                                        A={k: tabA[k] for k in ('scaled', 'smaller', 'nan', 'empty', 'strings', 'same-margins')})
    return out


def observe(m, kind, X, extra_probe=None):
    """everything a public query can see: name -> ('ok', value) | ('err', class)"""
    import pandas as pd
    obs = {}
    if kind == 'uni':
        x = np.asarray(X, dtype=float)
        x = x[np.isfinite(x)]
        lo, hi = (float(x.min()), float(x.max())) if len(x) else (0.0, 1.0)
        P = np.array([lo - 1.0, lo + 0.1 * (hi - lo), 0.5 * (lo + hi), hi - 0.1 * (hi - lo), hi + 1.0] + list(extra_probe or []))
        Uq = np.array([0.05, 0.3, 0.5, 0.8, 0.97])
        obs['to_dict'] = _try(lambda: _val(m.to_dict()))
        obs['cdf'] = _try(lambda: _val(m.cdf(P)))
        obs['pdf'] = _try(lambda: _val(m.pdf(P)))
        obs['log_pdf'] = _try(lambda: _val(m.log_probability_density(P)))
        obs['ppf'] = _try(lambda: _val(m.ppf(Uq)))
    elif kind == 'biv':
        Q = np.array([[.3, .4], [.6, .2], [.85, .9]])
        obs['to_dict'] = _try(lambda: _val(m.to_dict()))
        obs['cdf'] = _try(lambda: _val(m.cdf(Q)))
        obs['pdf'] = _try(lambda: _val(m.pdf(Q)))
        obs['partial_derivative'] = _try(lambda: _val(m.partial_derivative(Q)))
        obs['ppf'] = _try(lambda: _val(m.ppf(np.array([.3, .7]), np.array([.4, .6]))))
    elif kind == 'multi':
        Pt = X.iloc[:4] if isinstance(X, pd.DataFrame) and len(X) else pd.DataFrame({'a': [0.0], 'b': [0.0], 'c': [1.0]})
        obs['to_dict'] = _try(lambda: _val(m.to_dict()))
        obs['pdf'] = _try(lambda: _val(m.probability_density(Pt)))
        obs['log_pdf'] = _try(lambda: _val(m.log_probability_density(Pt)))
    else:
        obs['to_dict'] = _try(lambda: _val(m.to_dict()))
        u = getattr(m, 'u_matrix', None)
        obs['get_likelihood'] = _try(lambda: _val(m.get_likelihood(np.array([[.3, .5, .6]]) if u is None else u[:1])))

    def smp():
        st = np.random.get_state()
        try:
            m.set_random_state(77)
            return _val(m.sample(3 if kind in ('vine', 'biv') else 5))
        finally:
            np.random.set_state(st)
    obs['sample(seed=77)'] = _try(smp)
    return obs


def diff_fields(a, b):
    return [k for k in a if not _same_val(a[k], b[k])]


def fit_seeded(m, data, seed=4242):
    """fit with the global generator in a fixed state (so that a model whose fit legitimately resamples is comparable)"""
    st = np.random.get_state()
    np.random.seed(seed)
    try:
        return _try(lambda: m.fit(data.copy() if hasattr(data, 'copy') else data))
    finally:
        np.random.set_state(st)


def classify_refit(spec, refit, fresh, A):
    """symptom of a refit-vs-fresh difference, from the state of the two REAL objects"""
    inner_r = getattr(refit, '_instance', None) or refit
    inner_f = getattr(fresh, '_instance', None) or fresh
    if spec['kind'] == 'uni':
        if 'cumulative_distribution' in vars(inner_r) and 'cumulative_distribution' not in vars(inner_f):
            return 'F5', 'stale-constant-overrides'
        if hasattr(inner_r, 'min') and hasattr(inner_f, 'min') and (inner_r.min != inner_f.min or inner_r.max != inner_f.max):
            return 'F6', 'remembered-bounds'
        if hasattr(inner_r, '_sample_size') and not spec['make']()._sample_size:
            # constructed without sample_size, yet the refit model resampled / padded to the size of the EARLIER dataset
            pr, pf = (inner_r._params or {}).get('dataset'), (inner_f._params or {}).get('dataset')
            if pr is not None and pf is not None and np.size(pr) == np.size(A) and \
                    (np.size(pr) != np.size(pf) or np.ndim(pr) != np.ndim(pf)):
                return 'F7', 'cached-sample-size'
    return 'refit', 'differs'


def refit_oracle(name, spec):
    """[fit A; fit X] vs [fit X] for every A; failing fits must be atomic.  -> list of (key, what, replay)"""
    bad = []
    make, kind, X, As = spec['make'], spec['kind'], spec['X'], spec['A']
    call = f'P.refit_oracle({name!r}, P.target_classes()[{name!r}])'
    targets = [('X', X)] + ([('Xconst', spec['Xc'])] if 'Xc' in spec else [])
    for tname, Xt in targets:
        fresh = make()
        r0 = fit_seeded(fresh, Xt)
        probes = [2.5] if kind == 'uni' else None
        o_fresh = observe(fresh, kind, Xt, probes)
        for acat, A in As.items():
            if tname == 'Xconst' and acat not in ('bigger', 'constant', 'scaled'):
                continue
            m = make()
            ra = fit_seeded(m, A, seed=999)
            rx = fit_seeded(m, Xt)
            o_refit = observe(m, kind, Xt, probes)
            d = diff_fields(o_refit, o_fresh)
            if rx[0] != r0[0] or (rx[0] == 'err' and rx != r0):
                d = ['fit-outcome'] + d
            if d:
                fid, sym = classify_refit(spec, m, fresh, A)
                key = f'{fid}:{sym}:{name}:after-{acat}' + (':constant-target' if tname == 'Xconst' else '')
                what = (f'{name}: [fit({acat} data){" (raised " + ra[1] + ")" if ra[0] == "err" else ""}; fit({tname})] is observably different from '
                        f'[fit({tname})] in {d} ({sym})')
                bad.append((key, what, {'class': name, 'earlier': acat, 'target': tname, 'differs': d, 'repro': _replay(call, key)}))
            # atomicity of a failing fit: [fit X; fit A -> raises] must leave the model as it was
            if tname == 'X' and ra[0] == 'err':
                m2 = make()
                fit_seeded(m2, Xt)
                before = observe(m2, kind, Xt, probes)
                r2 = fit_seeded(m2, A, seed=999)
                after = observe(m2, kind, Xt, probes)
                d2 = diff_fields(after, before)
                if r2[0] == 'ok':
                    # the data a fresh model REJECTS is accepted after an earlier fit: the outcome of fit depends on the history
                    ff = make()
                    fit_seeded(ff, A, seed=999)
                    fid, sym = classify_refit(spec, m2, ff, Xt)
                    key = f'{fid}:{sym}:{name}:{acat}-data-accepted-after-fit'
                    bad.append((key, f'{name}: fit({acat} data) raises {ra[1]} on a fresh model but is accepted after fit(X) ({sym}); the model then '
                                f'answers { {k: (after[k][1] if after[k][0] == "err" else "a value") for k in list(after)[:3]} }',
                                {'class': name, 'data': acat, 'repro': _replay(call, key)}))
                elif d2:
                    key = f'F22:fit-failure-not-atomic:{name}:{acat}'
                    show = {k: (after[k][1] if after[k][0] == 'err' else 'changed value') for k in d2}
                    bad.append((key, f'{name}: [fit(X); fit({acat} data) -> {r2[1]}] leaves the model changed: {show}',
                                {'class': name, 'failing': acat, 'differs': d2, 'repro': _replay(call, key)}))
                # ... and a fresh model on which fit raised must still be unfitted
                m3 = make()
                unf = observe(m3, kind, Xt, probes)
                fit_seeded(m3, A, seed=999)
                aft = observe(m3, kind, Xt, probes)
                d3 = diff_fields(aft, unf)
                if d3:
                    key = f'F22:fit-failure-not-atomic:{name}:{acat}:fresh'
                    show = {k: (aft[k][1] if aft[k][0] == 'err' else 'returns a value') for k in d3}
                    bad.append((key, f'{name}: a fresh model on which fit({acat} data) raised {ra[1]} is no longer in its unfitted state: {show}',
                                {'class': name, 'failing': acat, 'differs': d3, 'repro': _replay(call, key)}))
    # fit must not read the global generator (two global states -> the same model) nor advance it
    Xt = X
    m1, m2 = make(), make()
    fit_seeded(m1, Xt, seed=1)
    fit_seeded(m2, Xt, seed=2)
    d = diff_fields(observe(m1, kind, Xt), observe(m2, kind, Xt))
    st = np.random.get_state()
    np.random.seed(5)
    g0 = L.rng_key(np.random.get_state())
    _try(lambda: make().fit(Xt.copy()))
    adv = L.rng_key(np.random.get_state()) != g0
    np.random.set_state(st)
    if d or adv:
        key = f'F9b:fit-uses-global-generator:{name}'
        bad.append((key, f'{name}.fit: ' + (f'two states of numpy\'s global generator give observably different models ({d}); ' if d else '')
                    + ('fit advances the global generator' if adv else ''),
                    {'class': name, 'differs': d, 'advances': adv, 'repro': _replay(call, key)}))
    return bad


def unfitted_oracle():
    """every query / sample / to_dict of every unfitted public model raises NotFittedError"""
    from copulas import univariate as U
    from copulas.bivariate import Bivariate, Clayton, Frank, Gumbel
    from copulas.multivariate import GaussianMultivariate, VineCopula
    import pandas as pd
    P, Uq, Q = np.array([0.5, 1.5]), np.array([.2, .7]), np.array([[.3, .4], [.6, .2]])
    T = pd.DataFrame({'a': [0.1, 0.2], 'b': [0.3, 0.4]})
    uni_calls = {'cumulative_distribution': (P,), 'cdf': (P,), 'probability_density': (P,), 'pdf': (P,), 'log_probability_density': (P,),
                 'percent_point': (Uq,), 'ppf': (Uq,), 'sample': (3,), 'to_dict': ()}
    biv_calls = {'cumulative_distribution': (Q,), 'cdf': (Q,), 'probability_density': (Q,), 'pdf': (Q,), 'log_probability_density': (Q,),
                 'partial_derivative': (Q,), 'partial_derivative_scalar': (.3, .4), 'percent_point': (Uq, Uq), 'ppf': (Uq, Uq),
                 'sample': (3,)}
    # Bivariate.to_dict of an unfitted copula returns {'copula_type', 'theta': None, 'tau': None} and round-trips to an unfitted copula
    # (C14: "unfitted models round-trip to unfitted models"; theorem C14_unfitted_biv_roundtrip): serialisation is not a query.  An
    # earlier version of this check demanded NotFittedError here (listed as F25) - that demanded more than C19 states and was withdrawn.
    multi_calls = {'probability_density': (T,), 'pdf': (T,), 'log_probability_density': (T,), 'cumulative_distribution': (T,), 'cdf': (T,),
                   'sample': (3,), 'to_dict': ()}
    # VineCopula.to_dict of an unfitted vine returns {'type', 'vine_type', 'fitted': False} by design (it round-trips): not a query
    vine_calls = {'sample': (3,), 'get_likelihood': (np.array([[.2, .5, .7]]),)}
    objs = []
    for cls in (U.GaussianUnivariate, U.UniformUnivariate, U.BetaUnivariate, U.GammaUnivariate, U.StudentTUnivariate, U.LogLaplace,
                U.TruncatedGaussian, U.GaussianKDE, U.Univariate):
        objs.append((cls.__name__, cls.__name__, cls, uni_calls))
        objs.append((cls.__name__ + '(random_state=3)', cls.__name__, lambda cls=cls: cls(random_state=3), uni_calls))
    objs.append(('GaussianKDE(sample_size=5)', 'GaussianKDE', lambda: U.GaussianKDE(sample_size=5), uni_calls))
    objs.append(('TruncatedGaussian(0,1)', 'TruncatedGaussian', lambda: U.TruncatedGaussian(0, 1), uni_calls))
    for cls in (Clayton, Frank, Gumbel):
        objs.append((cls.__name__, cls.__name__, cls, biv_calls))
        objs.append((cls.__name__ + '(random_state=3)', cls.__name__, lambda cls=cls: cls(random_state=3), biv_calls))
        objs.append((f'Bivariate(copula_type={cls.__name__.lower()!r})', cls.__name__,
                     lambda cls=cls: Bivariate(copula_type=cls.__name__.lower()), biv_calls))
    for cls in (Clayton, Frank, Gumbel):
        # the guard is `not self.theta`: a copula whose theta is 0 (Clayton fitted on tau = 0 data, F14a) counts as unfitted
        def mk0(cls=cls):
            c = cls()
            c.theta, c.tau = 0, 0.0
            return c
        objs.append((cls.__name__ + '[theta=0]', cls.__name__, mk0, dict(biv_calls)))
    objs.append(('GaussianMultivariate', 'GaussianMultivariate', GaussianMultivariate, multi_calls))
    objs.append(('GaussianMultivariate(random_state=3)', 'GaussianMultivariate', lambda: GaussianMultivariate(random_state=3), multi_calls))
    for vt in ('center', 'direct', 'regular'):
        objs.append((f'VineCopula({vt!r})', 'VineCopula', lambda vt=vt: VineCopula(vt), vine_calls))
    bad, n = [], 0
    for name, base, mk, calls in objs:
        for meth, args in calls.items():
            with warnings.catch_warnings():
                warnings.simplefilter('ignore')
                m = mk()
                g0 = L.rng_key(np.random.get_state())
                r = _try(lambda: getattr(m, meth)(*args))
                moved = L.rng_key(np.random.get_state()) != g0
            n += 1
            if r != ('err', 'NotFittedError'):
                got = r[1] if r[0] == 'err' else 'returns'
                if base in ('Clayton', 'Frank', 'Gumbel') and meth == 'sample' and got == 'TypeError':
                    key = 'F23:unfitted-bivariate-sample-TypeError'
                elif base == 'VineCopula' and got == 'AttributeError':
                    key = f'F30:unfitted-vine-{meth}-AttributeError'
                else:
                    key = f'unfitted:{base}.{meth}:{got}'
                bad.append((key, f'unfitted {name}.{meth}(...) {"raises " + got if r[0] == "err" else "returns " + str(r[1])[:60]} '
                            'instead of raising NotFittedError', {'object': name, 'method': meth, 'repro': _replay('P.unfitted_oracle()[0]', key)}))
            elif moved and '[theta=0]' not in name:
                key = f'unfitted:{base}.{meth}:consumes-global-generator'
                bad.append((key, f'unfitted {name}.{meth} advanced the global generator before raising',
                            {'object': name, 'method': meth, 'repro': _replay('P.unfitted_oracle()[0]', key)}))
    return bad, n


def validation_oracle():
    """multivariate fit on empty / non-numeric / NaN input raises ValueError and leaves the instance as it was"""
    import pandas as pd
    from copulas.multivariate import GaussianMultivariate, VineCopula
    from copulas.univariate import GaussianUnivariate
    r = np.random.RandomState(3)
    good = pd.DataFrame({'a': r.normal(size=30), 'b': r.normal(size=30), 'c': r.gamma(2, 1, 30)})
    bads = {'empty-frame': pd.DataFrame(), 'empty-frame-with-columns': pd.DataFrame({'a': [], 'b': []}), 'empty-array': np.zeros((0, 3)),
            'strings-frame': pd.DataFrame({'a': ['x', 'y', 'z'], 'b': ['u', 'v', 'w']}),
            'mixed-frame': pd.DataFrame({'a': [1.0, 2.0, 3.0], 'b': ['u', 'v', 'w']}),
            'object-array': np.array([['a', 'b', 'c'], ['d', 'e', 'f']], dtype=object),
            'bool-frame': pd.DataFrame({'a': [True, False, True], 'b': [False, True, True]}),
            'nan-frame': pd.DataFrame({'a': [1.0, np.nan, 3.0], 'b': [1.0, 2.0, 3.0], 'c': [2.0, 1.0, 0.0]}),
            'nan-array': np.array([[1.0, 2.0, 3.0], [np.nan, 1.0, 0.0], [0.5, 0.2, 0.1]]),
            'none-frame': pd.DataFrame({'a': [1.0, None, 3.0], 'b': [1.0, 2.0, 3.0]}),
            'all-nan-frame': pd.DataFrame({'a': [np.nan, np.nan], 'b': [np.nan, np.nan]}),
            # NaN in every representation that can hold one (round 4: a dtype-equality guard skipped float32 / float16)
            'nan-float32-frame': pd.DataFrame({'a': [1.0, np.nan, 3.0, 2.0], 'b': [1.0, 2.0, 3.0, 0.5], 'c': [2.0, 1.0, 0.0, 4.0]}).astype(np.float32),
            'nan-float16-array': np.array([[1.0, 2.0, 3.0], [np.nan, 1.0, 0.0], [0.5, 0.2, 0.1], [4.0, 2.5, 1.5]], dtype=np.float16),
            'nan-float32-array': np.array([[1.0, 2.0, 3.0], [0.25, 1.0, np.nan], [0.5, 0.2, 0.1], [4.0, 2.5, 1.5]], dtype=np.float32),
            'nan-fortran-array': np.asfortranarray(np.array([[1.0, 2.0, 3.0], [0.25, np.nan, 0.0], [0.5, 0.2, 0.1], [4.0, 2.5, 1.5]])),
            'nan-last-cell-frame': pd.DataFrame({'a': [1.0, 2.0, 3.0, 4.0], 'b': [1.0, 2.0, 3.0, np.nan]}),
            'nan-longdouble-array': np.array([[1.0, 2.0], [np.nan, 1.0], [0.5, 0.2]], dtype=np.longdouble)}
    makers = {'GaussianMultivariate': GaussianMultivariate,
              'GaussianMultivariate(GaussianUnivariate)': lambda: GaussianMultivariate(distribution=GaussianUnivariate),
              'VineCopula(center)': lambda: VineCopula('center'), 'VineCopula(direct)': lambda: VineCopula('direct'),
              'VineCopula(regular)': lambda: VineCopula('regular')}
    bad, n = [], 0
    for name, mk in makers.items():
        kind = 'vine' if name.startswith('Vine') else 'multi'
        with warnings.catch_warnings():
            warnings.simplefilter('ignore')
            fitted = mk()
            fitted.fit(good.copy())
            unf = observe(mk(), kind, good)
        before = observe(fitted, kind, good)
        for bname, B in bads.items():
            n += 1
            with warnings.catch_warnings():
                warnings.simplefilter('ignore')
                fresh = mk()
            g0 = L.rng_key(np.random.get_state())
            r1 = _try(lambda: fresh.fit(B.copy()))
            moved = L.rng_key(np.random.get_state()) != g0
            problems = []
            if r1 != ('err', 'ValueError'):
                problems.append(f'fresh.fit -> {r1[1] if r1[0] == "err" else "accepted"}')
            if fresh.fitted or diff_fields(observe(fresh, kind, good), unf):
                problems.append('fresh instance no longer unfitted')
            if moved:
                problems.append('global generator advanced')
            r2 = _try(lambda: fitted.fit(B.copy()))
            if r2 != ('err', 'ValueError'):
                problems.append(f'fitted.fit -> {r2[1] if r2[0] == "err" else "accepted"}')
            d = diff_fields(observe(fitted, kind, good), before)
            if d:
                problems.append(f'fitted instance changed in {d}')
                with warnings.catch_warnings():
                    warnings.simplefilter('ignore')
                    fitted = mk()
                    fitted.fit(good.copy())
                before = observe(fitted, kind, good)
            if problems:
                key = f'validation:{name}:{bname}'
                bad.append((key, f'{name}.fit({bname}): ' + '; '.join(problems),
                            {'class': name, 'input': bname, 'repro': _replay('P.validation_oracle()[0]', key)}))
    return bad, n


def _rs_key(m):
    rs = getattr(m, 'random_state', None)
    return None if rs is None else L.rng_key(rs.get_state())


def get_instance_oracle():
    """the four prototype forms -> a NEW unfitted object of the same class, configured like the prototype"""
    import pandas as pd
    from copulas import univariate as U
    from copulas.bivariate import Bivariate, Clayton, Frank, Gumbel, CopulaTypes
    from copulas.multivariate import GaussianMultivariate, VineCopula
    from copulas.utils import get_instance, get_qualified_name
    r = np.random.RandomState(8)
    X = r.gamma(2.0, 1.5, 30) + 0.5
    Bv = r.uniform(size=(40, 2))
    Bv[:, 1] = 0.5 * Bv[:, 0] + 0.5 * Bv[:, 1]
    T = pd.DataFrame({'a': r.normal(size=25), 'b': r.normal(size=25), 'c': r.normal(size=25)})
    protos = []     # (label, class, ctor kwargs, training data, kind, attribute expectations)
    for cls in (U.GaussianUnivariate, U.UniformUnivariate, U.BetaUnivariate, U.GammaUnivariate, U.StudentTUnivariate, U.LogLaplace):
        protos.append((cls.__name__, cls, {}, X, 'uni', {}))
        protos.append((cls.__name__ + '(random_state=42)', cls, {'random_state': 42}, X, 'uni', {}))
    protos += [
        ('TruncatedGaussian', U.TruncatedGaussian, {}, X, 'uni', {'min': None, 'max': None}),
        ('TruncatedGaussian(minimum=0)', U.TruncatedGaussian, {'minimum': 0.0}, X, 'uni', {'min': 0.0, 'max': None}),
        ('TruncatedGaussian(0,50,random_state=7)', U.TruncatedGaussian, {'minimum': 0.0, 'maximum': 50.0, 'random_state': 7}, X, 'uni',
         {'min': 0.0, 'max': 50.0}),
        ('GaussianKDE', U.GaussianKDE, {}, X, 'uni', {'_sample_size': None, 'bw_method': None}),
        ('GaussianKDE(sample_size=9,bw_method=0.3)', U.GaussianKDE, {'sample_size': 9, 'bw_method': 0.3}, X, 'uni',
         {'_sample_size': 9, 'bw_method': 0.3}),
        ('GaussianKDE(bw_method=silverman,random_state=5)', U.GaussianKDE, {'bw_method': 'silverman', 'random_state': 5}, X, 'uni',
         {'_sample_size': None, 'bw_method': 'silverman'}),
        ('Univariate', U.Univariate, {}, X, 'uni', {'selection_sample_size': None}),
        ('Univariate(parametric,bounded)', U.Univariate, {'parametric': U.ParametricType.PARAMETRIC, 'bounded': U.BoundedType.BOUNDED}, X, 'uni',
         {'candidates': [U.BetaUnivariate, U.TruncatedGaussian, U.UniformUnivariate]}),
        ('Univariate(candidates,selection_sample_size=4,random_state=1)', U.Univariate,
         {'candidates': [U.GaussianUnivariate, U.UniformUnivariate], 'selection_sample_size': 4, 'random_state': 1}, X, 'uni',
         {'candidates': [U.GaussianUnivariate, U.UniformUnivariate], 'selection_sample_size': 4}),
        ('Clayton', Clayton, {}, Bv, 'biv', {}), ('Clayton(random_state=3)', Clayton, {'random_state': 3}, Bv, 'biv', {}),
        ('Frank', Frank, {}, Bv, 'biv', {}), ('Frank(random_state=3)', Frank, {'random_state': 3}, Bv, 'biv', {}),
        ('Gumbel', Gumbel, {}, Bv, 'biv', {}), ('Gumbel(random_state=3)', Gumbel, {'random_state': 3}, Bv, 'biv', {}),
        ('GaussianMultivariate', GaussianMultivariate, {}, T, 'multi', {'distribution': U.Univariate}),
        ('GaussianMultivariate(distribution=GaussianUnivariate,random_state=2)', GaussianMultivariate,
         {'distribution': U.GaussianUnivariate, 'random_state': 2}, T, 'multi', {'distribution': U.GaussianUnivariate}),
        ('GaussianMultivariate(distribution=dict)', GaussianMultivariate, {'distribution': {'a': U.GaussianUnivariate, 'b': U.UniformUnivariate}},
         T, 'multi', {'distribution': {'a': U.GaussianUnivariate, 'b': U.UniformUnivariate}}),
        ('VineCopula(direct)', VineCopula, {'vine_type': 'direct'}, T, 'vine', {'vine_type': 'direct'}),
        ('VineCopula(center,random_state=4)', VineCopula, {'vine_type': 'center', 'random_state': 4}, T, 'vine', {'vine_type': 'center'}),
    ]
    bad, n = [], 0

    def check(form, new, cls, kind, data, expect, ctor_kw, proto_obj):
        probs = []
        if new is None:
            return ['returned None']
        if proto_obj is not None and new is proto_obj:
            probs.append('returned the prototype itself')
        if type(new) is not cls:
            return probs + [f'class {type(new).__name__} instead of {cls.__name__}']
        with warnings.catch_warnings():
            warnings.simplefilter('ignore')
            want = cls(**ctor_kw)
            rs_want, rs_new = _rs_key(want), _rs_key(new)       # before observe() re-seeds the objects
            dd = diff_fields(observe(new, kind, data), observe(cls(**ctor_kw), kind, data))
        if dd:
            probs.append(f'not in the unfitted state: {dd}')
        if proto_obj is not None:
            for a in ('candidates', 'distribution', 'weights', '__args__', '__kwargs__'):
                v, w = getattr(new, a, None), getattr(proto_obj, a, None)
                if v is not None and v is w and isinstance(v, (list, dict, np.ndarray)) and len(v):
                    probs.append(f'shares the mutable attribute {a} with the prototype')
            for a, v in expect.items():
                if getattr(new, a, '<missing>') != v:
                    probs.append(f'{a} = {getattr(new, a, "<missing>")!r} instead of {v!r}')
            if rs_want != rs_new:
                probs.append('random_state of the prototype\'s constructor call is not reproduced'
                             + (' (dropped)' if rs_new is None else ''))
        return probs

    for label, cls, kw, data, kind, expect in protos:
        forms = []
        with warnings.catch_warnings():
            warnings.simplefilter('ignore')
            if not kw:
                forms.append(('name', get_qualified_name(cls), None))
                forms.append(('class', cls, None))
            inst = cls(**kw)
            forms.append(('instance', inst, inst))
            fitted = cls(**kw)
            fit_seeded(fitted, data)
            fit_seeded(fitted, data * 3.0 if kind != 'biv' else data[:20])
            forms.append(('fitted-instance', fitted, fitted))
        for form, proto, pobj in forms:
            if form in ('name', 'class') and cls is VineCopula:
                continue
            n += 1
            with warnings.catch_warnings():
                warnings.simplefilter('ignore')
                r1 = _try(lambda: get_instance(proto))
            probs = [f'raised {r1[1]}'] if r1[0] == 'err' else check(form, r1[1], cls, kind, data, expect, kw, pobj)
            for pr in probs:
                if 'random_state' in pr and 'dropped' in pr:
                    key = f'F29:get_instance-drops-random_state:{cls.__name__}'
                else:
                    key = f'get_instance:{label}:{form}:{pr.split(":")[0][:50]}'
                bad.append((key, f'get_instance({form} of {label}): {pr}',
                            {'prototype': label, 'form': form, 'repro': _replay('P.get_instance_oracle()[0]', key)}))
    # the Bivariate entry point: every member of CopulaTypes must construct an object
    for ct in CopulaTypes:
        n += 1
        with warnings.catch_warnings():
            warnings.simplefilter('ignore')
            r1 = _try(lambda: Bivariate(copula_type=ct.name.lower()))
        if r1[0] == 'err' or r1[1] is None:
            key = 'F26:bivariate-independence-constructs-None' if ct.name == 'INDEPENDENCE' and r1 == ('ok', None) \
                else f'get_instance:Bivariate({ct.name.lower()}):{r1[1] if r1[0] == "err" else "None"}'
            bad.append((key, f'Bivariate(copula_type={ct.name.lower()!r}) evaluates to {r1[1] if r1[0] == "err" else None} instead of a new copula object',
                        {'copula_type': ct.name, 'repro': 'from copulas.bivariate import Bivariate\n'
                         f'b = Bivariate(copula_type={ct.name.lower()!r})\nprint(b)\nraise SystemExit(1 if b is None else 0)\n'}))
    return bad, n


SUBCLASS_SNIPPET = """
from copulas.bivariate import {cls}
d = {{'copula_type': '{NAME}', 'theta': 2.0, 'tau': 0.5}}
try:
    c = {cls}.from_dict(d)
    ok = type(c).__name__ == '{cls}' and c.theta == 2.0
    print('constructed', type(c).__name__)
except Exception as ex:
    ok = False
    print('raised', type(ex).__name__, ex)
raise SystemExit(0 if ok else 1)
"""


def subclass_from_dict_oracle():
    """<Subclass>.from_dict in a FRESH interpreter (class-level caches empty)"""
    from ..core import run_snippet
    bad = []
    for cls in ('Clayton', 'Frank', 'Gumbel'):
        code = SUBCLASS_SNIPPET.format(cls=cls, NAME=cls.upper())
        rc, out, err = run_snippet(code, timeout=120)
        if rc != 0:
            got = out.strip().split('\n')[-1] if out.strip() else err.strip()[-120:]
            key = f'F24:subclass-from_dict:{cls}' if 'raised AttributeError' in got else f'from_dict:{cls}:{got[:40]}'
            bad.append((key, f'{cls}.from_dict({{copula_type: {cls.upper()}, theta, tau}}) in a fresh interpreter: {got}', {'class': cls, 'repro': code}))
    return bad


# ---- uninitialised memory ---------------------------------------------------------------------------
class _PoisonedNumpy:
    """stands in for the module-level name `np` of tree.py / vine.py: np.empty returns a filled array"""

    def __init__(self, fill):
        self._fill = fill

    def __getattr__(self, name):
        if name == 'empty':
            fill = self._fill

            def empty(shape, *a, **k):
                out = np.empty(shape, *a, **k)
                out.fill(fill)
                return out
            return empty
        return getattr(np, name)


def vine_under_poison(vine_type, table, fill, truncated):
    """fit + likelihood + sample of a vine with every np.empty buffer of tree.py / vine.py pre-filled with `fill`"""
    import copulas.multivariate.tree as T
    import copulas.multivariate.vine as V
    from copulas.multivariate import VineCopula
    saved = (T.np, V.np)
    T.np = V.np = _PoisonedNumpy(fill)
    st = np.random.get_state()
    try:
        with warnings.catch_warnings():
            warnings.simplefilter('ignore')
            v = VineCopula(vine_type)
            v.fit(table.copy(), truncated=truncated)
            trees = []
            for t in v.trees:
                trees.append([{'L': int(e.L), 'R': int(e.R), 'D': sorted(int(x) for x in e.D), 'name': getattr(e.name, 'name', str(e.name)),
                               'theta': float(e.theta), 'tau': None if e.tau is None else float(e.tau)} for e in t.edges])
            lik = _try(lambda: float(v.get_likelihood(v.u_matrix[:1])))
            v.set_random_state(11)
            smp = _try(lambda: _val(v.sample(2)))
        return {'trees': trees, 'likelihood': lik, 'sample': smp}
    finally:
        T.np, V.np = saved
        np.random.set_state(st)


def poison_tables(seed, n_tables):
    import pandas as pd
    out = []
    for i in range(n_tables):
        r = np.random.RandomState(1000 * seed + i)
        d = 3 + i % 3
        Z = r.normal(size=(50, d))
        X = Z @ r.normal(size=(d, d))
        out.append((f'normal-mix(seed={1000 * seed + i},d={d},n=50)', pd.DataFrame(X, columns=[f'c{j}' for j in range(d)])))
    return out


def poison_oracle(seed, n_tables):
    """no result depends on uninitialised memory: NaN-filled vs 0.123-filled np.empty must give the same vine"""
    bad, n = [], 0
    for label, table in poison_tables(seed, n_tables):
        d = table.shape[1]
        for vt in ('center', 'direct', 'regular'):
            n += 1
            try:
                a = vine_under_poison(vt, table, float('nan'), d)
                b = vine_under_poison(vt, table, 0.123, d)
            except Exception as ex:
                bad.append((f'poison:vine-raises:{vt}:{type(ex).__name__}', f'VineCopula({vt}).fit on {label} raised {type(ex).__name__}: {ex}',
                            {'table': label}))
                continue
            struct = lambda t: [(e['L'], e['R'], e['D'], e['name']) for e in t]   # noqa: E731
            same_structure = True
            for lvl, (ta, tb) in enumerate(zip(a['trees'], b['trees'])):
                where = 'third-tree-onwards' if lvl >= 2 else f'tree{lvl + 1}'
                if struct(ta) != struct(tb):
                    same_structure = False
                    bad.append((f'F8:uninitialised-memory:structure:{vt}:{where}',
                                f'VineCopula({vt}) on {label}: tree {lvl + 1} has edges {struct(ta)} when np.empty is NaN-filled but {struct(tb)} '
                                'when it is 0.123-filled', {'table': label, 'vine_type': vt, 'tree': lvl + 1}))
                    break
                if not all(L.same(x['tau'], y['tau']) for x, y in zip(ta, tb)):
                    bad.append((f'F8:uninitialised-memory:edge-tau:{vt}:{where}',
                                f'VineCopula({vt}) on {label}: tree {lvl + 1} stores edge.tau = {[e["tau"] for e in ta]} (NaN fill) vs '
                                f'{[e["tau"] for e in tb]} (0.123 fill): the value is whatever np.empty returned',
                                {'table': label, 'vine_type': vt, 'tree': lvl + 1}))
                if not all(L.same(x['theta'], y['theta']) for x, y in zip(ta, tb)):
                    bad.append((f'F8:uninitialised-memory:theta:{vt}:{where}', f'VineCopula({vt}) on {label}: thetas of tree {lvl + 1} depend on the fill',
                                {'table': label, 'vine_type': vt, 'tree': lvl + 1}))
            if same_structure and not _same_val(a['likelihood'], b['likelihood']):
                where = 'three-or-more-trees' if d >= 4 else f'{d - 1}-trees'
                bad.append((f'F8:uninitialised-memory:likelihood:{vt}:{where}',
                            f'VineCopula({vt}).get_likelihood on {label}: {a["likelihood"]} (NaN fill) vs {b["likelihood"]} (0.123 fill)',
                            {'table': label, 'vine_type': vt}))
            if same_structure and not _same_val(a['sample'], b['sample']):
                bad.append((f'F8:uninitialised-memory:sample:{vt}', f'VineCopula({vt}).sample on {label} depends on the fill although the structure does not',
                            {'table': label, 'vine_type': vt}))
            # TRUNCATED vines (fewer trees than n_var - 1; one or two trees are free of the F8 reads on the pristine tree): every buffer that
            # is summed or returned must have been written for the trees that exist - keys of their own, never matched by the F8 entries
            for t in ([1] if d == 3 else [1, 2]):
                n += 1
                try:
                    a = vine_under_poison(vt, table, float('nan'), t)
                    b = vine_under_poison(vt, table, 0.123, t)
                except Exception as ex:
                    bad.append((f'poison:vine-raises:{vt}:truncated{t}:{type(ex).__name__}', f'VineCopula({vt}).fit(truncated={t}) on {label} raised {type(ex).__name__}: {ex}',
                                {'table': label}))
                    continue
                for field in ('trees', 'likelihood', 'sample'):
                    same = (_same_val(a[field], b[field]) if field != 'trees' else
                            [[(e['L'], e['R'], e['D'], e['name']) for e in tr] for tr in a['trees']] == [[(e['L'], e['R'], e['D'], e['name']) for e in tr] for tr in b['trees']]
                            and all(L.same(x['tau'], y['tau']) and L.same(x['theta'], y['theta']) for ta, tb in zip(a['trees'], b['trees']) for x, y in zip(ta, tb)))
                    if not same:
                        bad.append((f'uninitialised-memory:truncated{t}:{field}:{vt}',
                                    f'VineCopula({vt}).fit(truncated={t}) on {label} ({d} columns): {field} depends on the contents of np.empty buffers: '
                                    f'{str(a[field])[:120]} (NaN fill) vs {str(b[field])[:120]} (0.123 fill)', {'table': label, 'vine_type': vt, 'truncated': t}))
    for b in bad:
        b[2].setdefault('repro', _replay(f'P.poison_oracle({seed}, {n_tables})[0]', b[0]))
    return bad, n


def witness_search(ctx):
    quick = ctx.tier == 'quick'
    hits = {}

    def report(items, group):
        for key, what, replay in items:
            hits[key] = hits.get(key, 0) + 1
            ctx.violation(key, what, replay)
        ctx.extra.setdefault('witness_search', {})[group] = sorted({k for k, _, _ in items})
    specs = target_classes()
    allbad = []
    for name, spec in specs.items():
        try:
            bad = refit_oracle(name, spec)
        except Exception:
            import traceback
            ctx.obligation(f'oracle:refit:{name}', False, 'harness', traceback.format_exc()[-1200:])
            continue
        ctx.case(('refit', name), {'oracle': 'refit-vs-fresh + failure atomicity + global generator', 'class': name,
                                   'earlier_data': list(spec['A']), 'violations': [b[0] for b in bad]})
        allbad += bad
    report(allbad, 'refit-vs-fresh')
    bad, n = unfitted_oracle()
    ctx.case(('unfitted', n), {'oracle': 'unfitted raises NotFittedError', 'calls': n, 'violations': sorted({b[0] for b in bad})})
    report(bad, 'unfitted')
    bad, n = validation_oracle()
    ctx.case(('validation', n), {'oracle': 'multivariate validation', 'cases': n, 'violations': [b[0] for b in bad]})
    report(bad, 'validation')
    bad, n = get_instance_oracle()
    ctx.case(('get_instance', n), {'oracle': 'get_instance prototype forms', 'cases': n, 'violations': sorted({b[0] for b in bad})})
    report(bad, 'get_instance')
    report(subclass_from_dict_oracle(), 'subclass-from_dict')
    bad, n = poison_oracle(ctx.seed, 6 if quick else 30)
    ctx.case(('poison', n), {'oracle': 'np.empty poisoned with NaN vs 0.123 in tree.py / vine.py', 'vine fits': n,
                             'violations': sorted({b[0] for b in bad})})
    report(bad, 'uninitialised-memory')
    ctx.extra['witness_search_hits'] = hits


# =====================================================================================================
# run
# =====================================================================================================
def ensure_tab(ctx):
    """coq/Model/LifecycleTab.v is a static library file; until it is listed in _CoqProject (then `make` builds it and this
    is a no-op) compile it here when its .vo is missing or older than its source / its dependencies"""
    import fcntl
    import subprocess
    from ..core import COQ, VERIF
    src = os.path.join(COQ, 'Model', 'LifecycleTab.v')
    vo = src + 'o'
    deps = [src, os.path.join(COQ, 'Model', 'Lifecycle.vo'), os.path.join(COQ, 'Model', 'Vine.vo')]
    lock = open(os.path.join(VERIF, 'build', '.static.lock'), 'w')
    fcntl.flock(lock, fcntl.LOCK_EX)
    try:
        if os.path.exists(vo) and all(os.path.getmtime(vo) >= os.path.getmtime(d) for d in deps if os.path.exists(d)):
            return True
        r = subprocess.run(['timeout', '600', 'coqc', '-q', '-w', '-all', '-Q', COQ, 'Cop', 'Model/LifecycleTab.v'], cwd=COQ,
                           stdout=subprocess.PIPE, stderr=subprocess.STDOUT, text=True)
        if r.returncode != 0:
            ctx.obligation('static:Model/LifecycleTab.v', False, 'proof', r.stdout[-1500:])
            return False
        return True
    finally:
        fcntl.flock(lock, fcntl.LOCK_UN)


def _run(ctx):
    quick = ctx.tier == 'quick'
    if not ensure_tab(ctx):
        return
    text, pyfacts, problems = gen_facts()
    ctx.write('Gen_c19facts.v', text)
    for p in problems:
        ctx.obligation('translation:c19facts', False, 'translation', p)
    ctx.extra['facts'] = {k: v for k, v in pyfacts.items() if k != 'shapes'}
    # second tie of the univariate base classes: the control skeleton of copulas/univariate/base.py translated statement by statement
    # (Gen_unictl.v); Props/C19.v proves every generated definition equal to Model.Lifecycle (C19_bridge_*).  A failure here does not
    # stop the correspondence and the witness search below.
    statusu = unictlgen.generate(ctx)
    for k in unictlgen.PARTS:
        ctx.obligation(f'translate:{k}', statusu.get(k, 'not attempted') is None, 'translation', statusu.get(k) or '')
    ctx.rule('translation: Univariate.check_fit / _replace_constant_methods / _set_constant_value / _check_constant_value / to_dict / '
             'from_dict / _set_params and ScipyModel.fit / _set_params / _get_params / probability_density / cumulative_distribution / '
             'percent_point / log_probability_density / sample are translated from the AST on every run into Gen_unictl.v (strict shape '
             'check, fail-closed; statement order, assigned attributes, guards, exception classes, the bound / popped method names, the '
             'scipy method delegated to, decorators, `check_fit first`, `fitted = True last` from the source text); the C19_bridge_* '
             'theorems prove them equal to Model.Lifecycle (set_constant, fit_scipy, set_params_scipy, query_scipy, to_dict_scipy, '
             'from_dict_scipy) for all states and inputs')
    ctx.copy_src('Props/C19.v')
    ctx.compile(['Gen_c19facts.v', 'Gen_unictl.v', 'C19.v'])
    # third tie: copulas/utils.py (get_instance, get_qualified_name, store_args, check_valid_values) translated statement by statement
    # (Gen_utils.v) and proved equal to Model.Lifecycle in Props/C19_utils.v (C19u_bridge_*); independent of the files above
    statusz = utilsgen.generate(ctx)
    for k in utilsgen.PARTS:
        ctx.obligation(f'translate:{k}', statusz.get(k, 'not attempted') is None, 'translation', statusz.get(k) or '')
    ctx.rule('translation: utils.get_instance / get_qualified_name / store_args / check_valid_values and the list of family classes whose '
             '__init__ carries @store_args are translated from the AST on every run into Gen_utils.v (strict shape check, fail-closed); '
             'C19u_bridge_* prove them equal to Model.Lifecycle (get_instance_u incl. every failure of the name resolution, fqn, the '
             's_stored clause of new_scipy, the validation prefix of fit_gm) for all inputs; C19u_refused_table_leaves_model, '
             'C19u_get_instance_unfitted, C19u_get_instance_replays_constructor, C19u_qualified_name_resolves are stated on the generated functions')
    utilsgen.compile_props(ctx)
    # third tie: the control skeleton of GaussianMultivariate / Multivariate (Gen_gmctl.v over coq/Lib/PyGM.v); Props/C19_gm.v proves the
    # generated definitions equal to new_gm / fit_gm / query_gm / to_dict_gm / from_dict_gm / from_dict_multivariate (C19_bridge_gm_*).
    # Compiled on its own: a failure in C19.v does not hide these theorems and the other way round; the rest of the check runs regardless.
    statusg = gmctlgen.generate(ctx)
    for k in gmctlgen.PARTS:
        ctx.obligation(f'translate:{k}', statusg.get(k, 'not attempted') is None, 'translation', statusg.get(k) or '')
    ctx.rule('translation: Multivariate.check_fit / log_probability_density / from_dict and GaussianMultivariate.fit (with _validate_input, '
             '_fit_columns, _get_distribution_for_column, _fit_column, _fit_with_fallback_distribution) / probability_density / '
             'cumulative_distribution / sample (with _get_normal_samples, conditions=None) / to_dict / from_dict are translated from the AST on '
             'every run into Gen_gmctl.v (vocabulary coq/Lib/PyGM.v; strict shape check, fail-closed); the C19_bridge_gm_* theorems of '
             'Props/C19_gm.v prove them equal to Model.Lifecycle (fit_columns, fit_gm, query_gm, to_dict_gm, from_dict_gm, '
             'from_dict_multivariate) for all states and inputs')
    ctx.copy_src('Props/C19_gm.v')
    ctx.compile(['Gen_gmctl.v', 'C19_gm.v'])
    from .. import bivlifegen
    bivlifegen.hook(ctx)     # Gen_bivlife.v + Props/C14_biv.v (check_fit first on every bivariate query: C14_bridge_query)
    # third tie (tools/vf/uniwrapgen.py): the family hooks, GaussianKDE's own methods and the selecting Univariate wrapper, generated into
    # Gen_uniwrap.v and proved equal to Model.Lifecycle in Props/C19_uni2.v (C19_bridge2_*); fail-closed, and never stops what follows
    uniwrapgen.hook(ctx, statusu)
    # fourth tie (tools/vf/kdeqgen.py): GaussianKDE._get_bounds / cumulative_distribution / percent_point, the four _constant_* methods and
    # the constructors of the ScipyModel classes -> Gen_kdeq.v / Gen_uinit.v, Props/C19_kde.v / C19_kde_init.v (C19_bridge3_*)
    from .. import kdeqgen
    kdeqgen.hook(ctx, statusu, statusz)
    ctx.rule('correspondence: random histories (3..8 events: fit 42% / query 40% (cdf,pdf,ppf,logpdf,sample[,partial]) / to_dict 11% / '
             'get_instance 7%) per object configuration: 8 ScipyModel families (default, seeded; TruncatedGaussian without/with one/both '
             'bounds; GaussianKDE with sample_size 1/5/8/30, bw_method scott/silverman/scalar/invalid, weights), Univariate wrapper '
             '(candidate lists as classes/names/instances, parametric/bounded filters, selection_sample_size, seeded), Clayton/Frank/Gumbel, '
             'GaussianMultivariate (class/name/dict/instance/wrapper distributions); datasets: constant, single point, tiny, X, 10X, '
             'normal/gamma/beta/uniform samples of 3..120 points, NaN; (n,2) samples with positive/negative/zero/perfect dependence, constant '
             'column, out of range, empty; tables numeric/empty/strings/NaN/ndarray/constant column.  Each step is run on the real library '
             'with recorders at the scipy/numpy boundary and canonicalised to the BEHAVIOUR the caller gets (degenerate at c | scipy family + '
             'params | KDE object + bounds source | error class | which generator was consumed); the returned numbers are checked against '
             'that behaviour; the same history is evaluated by vm_compute of Lifecycle.step over the captured oracle table and compared '
             '(numbers within 1e-9 relative).')
    corr(ctx, {'scipy': 62, 'wrapper': 20, 'biv': 18, 'gm': 14} if quick else {'scipy': 620, 'wrapper': 160, 'biv': 150, 'gm': 90})
    ctx.rule('witness search (always): refit-vs-fresh observational equality (to_dict, cdf/pdf/log-pdf/ppf on probes, sample under seed 77) for '
             '[fit A; fit X] vs [fit X], A in {constant, scaled, bigger, smaller, NaN, empty, (bivariate) constant column / negative dependence / '
             'out of range, (tables) other columns / strings}, X non-constant and constant, on 8 families (+ options), Univariate (3 configs), '
             'Clayton/Frank/Gumbel, GaussianMultivariate (3 configs), VineCopula (3 types); atomicity of failing fits; independence of fit from '
             'the global generator; NotFittedError on every query of every unfitted class; validation of 11 invalid tables on 5 multivariate '
             'configurations; get_instance on name/class/instance/fitted-instance prototypes of 32 configurations; <Subclass>.from_dict in a fresh '
             'interpreter; vines under NaN- vs 0.123-filled np.empty')
    witness_search(ctx)
    ctx.trusted += ['coq/Model/Lifecycle.v is a hand-written transcription of the fit/query/serialisation paths of the ScipyModel families, '
                    'Univariate, Bivariate, GaussianMultivariate and get_instance (tied by the history correspondence and the AST facts)',
                    'tools/vf/unictlgen.py: the m_* / py_* vocabulary (fixed header of Gen_unictl.v: the state monad, attribute access, the override '
                    'table, the np.unique summary, scipy delegation, @random_state, get_instance / method resolution for from_dict) and the '
                    'shape-checking translator; the family hooks _fit / _fit_constant / _is_constant / _extract_constant, the _constant_* methods '
                    'and GaussianKDE\'s overrides stay hand-written in Model/Lifecycle.v',
                    'tools/vf/utilsgen.py: the py_* vocabulary of Gen_utils.v (prototype kinds, name resolution = rsplit + import_module + getattr over '
                    'the class table of the model, what @store_args leaves on an instance, the table summary with two dtype flags) and the translator',
                    'tools/vf/gmctlgen.py + coq/Lib/PyGM.v: the g_* / r_* / py_* vocabulary of Gen_gmctl.v (state monad over ginst, try/except, loops '
                    'with accumulators, attribute access, @random_state, @check_valid_values, the DataFrame / distribution-spec / sample-frame '
                    'denotations) and the shape-checking translator; <univariate>.fit, _get_correlation, _transform_to_normal and '
                    'Univariate.from_dict are hooks instantiated with the model\'s fit_u / q_u / o_corr / from_dict_u',
                    'tools/vf/lifecycle.py: recorders at the scipy/numpy boundary, canonicalisation of observations, oracle tables',
                    'scipy/numpy results enter the model as table values (no claim about scipy itself)']


def run(ctx):
    """the check proper, then the edge-input oracle for unfitted models (always, also after a broken proof)"""
    from .. import extra_oracles
    try:
        _run(ctx)
    finally:
        try:
            extra_oracles.unfitted_edge_inputs(ctx)
            from .. import extra_oracles3
            extra_oracles3.gm_failed_column_state(ctx)
            extra_oracles3.uni_fit_ambient(ctx)
        except Exception as ex:
            ctx.obligation('oracle:extra:raised', False, 'correspondence', repr(ex))
            ctx.violation('oracle:extra:raised:' + type(ex).__name__, 'edge-input oracle raised ' + repr(ex), {'repro': '# see tools/vf/extra_oracles.py'})
