"""C12 — conditional sampling fixes the given columns and follows the conditional law."""
import copy
import itertools
import re
from fractions import Fraction

import numpy as np
import pandas as pd

from .. import cases, gaussmv as G

DBL_EPS = float(np.finfo(float).eps)
EPS32 = float(np.finfo(np.float32).eps)


# ------------------------------------------------------------------------------------------------
# parser for the printed Coq values (tuples, lists, integers, constructor applications)
def _tokens(s):
    s = re.sub(r'%(nat|Z|positive|Q)', '', s)
    return re.findall(r'-?\d+|[A-Za-z_][A-Za-z_0-9\.]*|[()\[\],;]', s)


def parse_coq(s):
    toks = _tokens(s)
    pos = [0]

    def peek():
        return toks[pos[0]] if pos[0] < len(toks) else None

    def take(t=None):
        x = toks[pos[0]]
        if t is not None and x != t:
            raise ValueError(f'expected {t} got {x} at {pos[0]}')
        pos[0] += 1
        return x

    def atom():
        t = peek()
        if t == '(':
            take('(')
            items = [term()]
            while peek() == ',':
                take(',')
                items.append(term())
            take(')')
            return items[0] if len(items) == 1 else tuple(items)
        if t == '[':
            take('[')
            items = []
            if peek() != ']':
                items.append(term())
                while peek() == ';':
                    take(';')
                    items.append(term())
            take(']')
            return items
        take()
        if re.match(r'-?\d+$', t):
            return int(t)
        return t

    def term():
        a = atom()
        if isinstance(a, str) and a not in ('true', 'false'):
            args = []
            while peek() is not None and peek() not in (')', ']', ',', ';'):
                args.append(atom())
            return {'c': a, 'a': args}
        return a
    r = term()
    if pos[0] != len(toks):
        raise ValueError('trailing tokens')
    return r


def qval(p):
    return Fraction(int(p[0]), int(p[1]))


# ------------------------------------------------------------------------------------------------
# running the implementation on one case
def container(kind, items):
    if kind == 'Series':
        return pd.Series([v for _, v in items], index=[k for k, _ in items], dtype=float)
    return {k: v for k, v in items}


def same_container(a, b):
    if isinstance(a, pd.Series):
        return isinstance(b, pd.Series) and list(a.index) == list(b.index) and a.dtype == b.dtype \
            and np.array_equal(a.to_numpy(), b.to_numpy())
    return type(a) is type(b) and list(a.keys()) == list(b.keys()) and all(type(a[k]) is type(b[k]) and a[k] == b[k] for k in a)


def draw_for(case_seed):
    def f(means, cov, size):
        r = np.random.default_rng(case_seed)
        return np.round(r.normal(0.0, 1.5, size=(int(size), len(means))), 6)
    return f


def run_impl(m, n, kind, items, case_seed):
    """returns dict with outcome and captured oracle values"""
    from copulas.multivariate.gaussian import GaussianMultivariate as GM
    obj = container(kind, items)
    snap = copy.deepcopy(obj)
    rec = {'cd': []}
    orig = GM._get_conditional_distribution

    def wrapped(self, conditions):
        r = orig(self, conditions)
        rec['cd'].append((list(conditions.index), np.array(conditions.to_numpy(), dtype=float, copy=True), list(r[2])))
        return r
    GM._get_conditional_distribution = wrapped
    try:
        with G.Capture(mvn_samples=draw_for(case_seed)) as cap, np.errstate(all='ignore'):
            try:
                out = m.sample(n, obj)
                res = ('ok', out)
            except Exception as ex:
                res = ('err', type(ex).__name__, str(ex)[:160])
    finally:
        GM._get_conditional_distribution = orig
    return {'res': res, 'cap': cap, 'cd': rec['cd'], 'unchanged': same_container(snap, obj), 'obj': obj}


def score_by_label(m, c, v):
    """norm.ppf(clip(cdf_c(v))) computed by the harness for the column labelled c"""
    from scipy import stats
    u = m.univariates[list(m.columns).index(c)]
    p = np.asarray(u.cdf(np.array([float(v)])), dtype=float)
    return float(stats.norm.ppf(np.clip(p, EPS32, 1 - EPS32))[0])


ERR_PATTERNS = {
    'ValueError_no_arrays': ('ValueError', r'need at least one array'),
    'ValueError_length_mismatch': ('ValueError', r'Length of values \((\d+)\) does not match length of index \((\d+)\)'),
    'ValueError_empty_draw': ('ValueError', r'cannot reshape array of size 0'),
    'ValueError_shape': ('ValueError', r'Shape of passed values'),
    'ValueError_series_truth': ('ValueError', r'truth value of a Series is ambiguous'),
    'KeyError': ('KeyError', r''),
}


def err_matches(model_err, impl_res):
    if impl_res[0] != 'err':
        return False
    name = model_err['c']
    ty, pat = ERR_PATTERNS.get(name, (None, None))
    if ty is None or impl_res[1] != ty:
        return False
    mm = re.search(pat, impl_res[2])
    if not mm:
        return False
    if name == 'ValueError_length_mismatch':
        return [int(mm.group(1)), int(mm.group(2))] == [int(x) for x in model_err['a']]
    return True


def lin_tol(S12, S22, z):
    """error allowance of the float evaluation of S12 inv(S22) z / S12 inv(S22) S21, proportional to cond(S22)"""
    if S22.size == 0:
        return 0.0
    try:
        X = np.linalg.inv(S22)
        k = float(np.linalg.cond(S22))
    except Exception:
        return float('inf')
    return 64 * DBL_EPS * k * (1.0 + float(np.abs(S12).sum(axis=1).max(initial=0.0))) * float(np.abs(X).sum(axis=1).max()) \
        * (1.0 + float(np.max(np.abs(z), initial=0.0)))


# ------------------------------------------------------------------------------------------------
# the property's statement as an executable oracle (in-scope calls: non-empty proper subset of the training columns)
def case_oracles(m, n, kind, items, R):
    """R = run_impl result.  Returns list of (key, clause, description)."""
    from scipy import stats
    bad = []
    cols = list(m.columns)
    keys = [k for k, _ in items]
    given = dict(items)
    res = R['res']
    if not R['unchanged']:
        bad.append(('oracle:caller-conditions-modified', 'caller-unmodified', f'the conditions object was modified: {R["obj"]!r}'))
    if res[0] != 'ok':
        if kind == 'Series' and res[1] == 'ValueError' and 'truth value of a Series' in res[2]:
            bad.append(('F11:series-conditions-raise', 'series-accepted', f'sample(conditions=pd.Series) raised {res[1]}: {res[2][:90]}'))
        else:
            bad.append((f'oracle:{kind.lower()}-conditions-raise:{res[1]}', 'returns', f'sample raised {res[1]}: {res[2][:120]}'))
        return bad
    out = res[1]
    if list(out.columns) != cols or len(out) != n:
        bad.append(('oracle:frame-shape', 'all-columns-in-order', f'returned columns {list(out.columns)} x {len(out)} rows; expected {cols} x {n}'))
        return bad
    for c in keys:
        col = out[c].to_numpy()
        if not np.all(col == given[c]):
            bad.append(('oracle:fixed-columns', 'fixed-columns', f'column {c!r} is {col.tolist()[:4]} instead of the given {given[c]}'))
    # conditional law: by label, independently of the code's ordering
    free = [c for c in cols if c not in given]
    if not R['cd'] or not R['cap'].mvn:
        bad.append(('oracle:no-conditional-draw', 'conditional-law', 'no conditional draw was made'))
        return bad
    means, cov, size = R['cap'].mvn[-1]
    drawn_cols = R['cd'][-1][2]
    if sorted(map(str, drawn_cols)) != sorted(map(str, free)) or means.shape != (len(free),) or cov.shape != (len(free), len(free)):
        bad.append(('oracle:free-columns', 'conditional-law', f'the draw is over {drawn_cols} (mean shape {means.shape}); free columns are {free}'))
        return bad
    S = m.correlation
    z = np.array([score_by_label(m, c, given[c]) for c in keys])
    S11 = S.loc[drawn_cols, drawn_cols].to_numpy()
    S12 = S.loc[drawn_cols, keys].to_numpy()
    S22 = S.loc[keys, keys].to_numpy()
    K = S12 @ np.linalg.inv(S22)
    mu_e, cov_e = K @ z, S11 - K @ S12.T
    tol = lin_tol(S12, S22, z)
    if not np.all(np.abs(means - mu_e) <= 1e-9 * (1 + np.abs(mu_e)) + tol):
        # positional relabelling (F19): scores in TRAINING order attached to the labels in CONTAINER order
        tr = [c for c in cols if c in given]
        z_pos = np.array([score_by_label(m, tr[i], given[tr[i]]) for i in range(len(keys))])
        mu_pos = K @ z_pos
        if tr != keys and np.all(np.abs(means - mu_pos) <= 1e-9 * (1 + np.abs(mu_pos)) + tol):
            bad.append(('F19:condition-scores-relabelled-positionally', 'conditional-mean',
                        f'conditions keys {keys} (training order {tr}): conditional mean {means.tolist()} is S12 S22^-1 z with z = scores of '
                        f'{tr} attached to labels {keys}; by label it must be {mu_e.tolist()}'))
        else:
            bad.append(('oracle:conditional-mean', 'conditional-mean', f'mean passed to multivariate_normal {means.tolist()} != S12 S22^-1 z = {mu_e.tolist()} '
                                                                      f'(keys {keys}, z {z.tolist()})'))
    if not np.all(np.abs(cov - cov_e) <= 1e-9 * (1 + np.abs(cov_e)) + tol):
        bad.append(('oracle:conditional-covariance', 'schur-complement', f'covariance {cov.tolist()} != Schur complement {cov_e.tolist()}'))
    if not np.all(np.abs(cov - cov.T) <= 1e-12 + tol) or np.linalg.eigvalsh((cov + cov.T) / 2).min() < -1e-9 - tol:
        bad.append(('oracle:covariance-not-psd', 'schur-complement', f'covariance not symmetric PSD: {cov.tolist()}'))
    draw = draw_for(R['seed'])(means, cov, n)
    for c in free:
        i = drawn_cols.index(c)
        u = m.univariates[cols.index(c)]
        with np.errstate(all='ignore'):
            e = np.asarray(u.percent_point(stats.norm.cdf(draw[:, i])), dtype=float)
        a = out[c].to_numpy(dtype=float)
        if not np.allclose(a, e, rtol=1e-9, atol=1e-12, equal_nan=True):
            bad.append(('oracle:back-transform-by-label', 'sampled-by-label', f'column {c!r} = {a.tolist()[:3]} but ppf_c(Phi(draw[{c!r}])) = {e.tolist()[:3]}'))
    return bad


# ------------------------------------------------------------------------------------------------
def fit_model(spec):
    """spec: dict(table, columns, cfg, seed) -> fitted model"""
    X = pd.DataFrame({c: np.asarray(spec['table'][str(c)], dtype=float) for c in spec['columns']}, columns=list(spec['columns']))
    cfg = dict(G.marginal_configs(list(spec['columns'])))[spec['cfg']]
    m = G.new_model(cfg(), spec['seed'])
    with np.errstate(all='ignore'):
        m.fit(X)
    return m


def replay_case(spec, n, kind, items, case_seed):
    """replay entry point: returns the violated clauses of one conditional-sampling call on the real class"""
    m = fit_model(spec)
    items = [(k, v) for k, v in items]
    R = run_impl(m, n, kind, items, case_seed)
    R['seed'] = case_seed
    return [(k, d) for k, _, d in case_oracles(m, n, kind, items, R)]


def repro_generic(spec, n, kind, items, case_seed):
    return ('from vf.props import C12\n'
            f'bad = C12.replay_case({spec!r}, {n}, {kind!r}, {items!r}, {case_seed})\nprint(bad)\nassert not bad\n')


def repro_f11(spec, items):
    return ('import numpy as np, pandas as pd\nfrom copulas.multivariate import GaussianMultivariate\n'
            'from copulas.univariate import GaussianUnivariate\n'
            f'X = pd.DataFrame({ {str(c): spec["table"][str(c)] for c in spec["columns"]}!r})\n'
            'm = GaussianMultivariate(distribution=GaussianUnivariate, random_state=0); m.fit(X)\n'
            f'cond = pd.Series({dict((str(k), v) for k, v in items)!r})\n'
            'out = m.sample(3, conditions=cond)      # documented: "conditions (dict or pd.Series)"; raises ValueError\n'
            'print(out)\n')


def repro_f19(spec, items):
    keys = [str(k) for k, _ in items]
    return ('import numpy as np, pandas as pd\nfrom copulas.multivariate import GaussianMultivariate\n'
            'from copulas.univariate import GaussianUnivariate\n'
            f'X = pd.DataFrame({ {str(c): spec["table"][str(c)] for c in spec["columns"]}!r})\n'
            'm = GaussianMultivariate(distribution=GaussianUnivariate, random_state=0); m.fit(X)\n'
            f'items = {[(str(k), v) for k, v in items]!r}\n'
            'rec = []\norig = np.random.multivariate_normal\n'
            'def mvn(mean, cov, size=None):\n    rec.append(np.array(mean)); return orig(mean, cov, size=size)\n'
            'np.random.multivariate_normal = mvn\n'
            'm.sample(2, conditions=dict(items)); m.sample(2, conditions=dict(reversed(items)))\n'
            'np.random.multivariate_normal = orig\n'
            'print("conditional mean, keys in the order", [k for k, _ in items], ":", rec[0])\n'
            'print("conditional mean, same conditions, keys reversed:", rec[1])\n'
            'assert np.allclose(rec[0], rec[1]), "the conditional distribution depends on the ORDER of the dict keys"\n')


def subsets(cols, rng, quick):
    d = len(cols)
    allsub = [list(s) for r in range(1, d) for s in itertools.combinations(cols, r)]
    if d <= 4:
        return allsub
    k = 8 if quick else 30
    idx = rng.permutation(len(allsub))[:k]
    return [allsub[i] for i in sorted(idx)]


def model_specs(rng, quick, seed):
    """(d, n_rows, kinds, labels, cfg)"""
    specs = [
        (2, 20, ['base', 'mix'], 'str', 'class'),
        (3, 25, ['base', 'mix', 'mix'], ['b', 'c', 'a'], 'class'),
        (3, 12, ['base', 'mix', 'base'], 'int', 'class-uniform'),
        (4, 30, ['base', 'mix', 'mix', 'int'], 'str', 'class'),
        (4, 15, ['base', 'dup', 'mix', 'const'], 'str', 'qualified-name'),
        (5, 30, ['base', 'mix', 'mix', 'base', 'mix'], 'str', 'dict'),
        (6, 40, ['base', 'mix', 'mix', 'base', 'mix', 'neg'], 'str', 'instance'),
        (3, 10, ['base', 'mix', 'mix'], 'str', 'default'),
    ]
    if not quick:
        for i in range(16):
            d = int(rng.integers(2, 7))
            specs.append((d, int(rng.integers(8, 41)), None, 'int' if i % 4 == 3 else 'str',
                          ['class', 'dict', 'class-uniform', 'instance', 'qualified-name-kde', 'dict-shifted'][i % 6]))
    return specs


def _run(ctx):
    quick = ctx.tier == 'quick'
    status = G.generate(ctx, {'cond'})
    for k, v in status.items():
        ctx.obligation(f'translate:{k}', not v, 'translation', v)
    compiled = False
    if not any(status.values()):
        ctx.copy_src('Bridge/Bridge_gmcond.v')
        ctx.copy_src('Props/C12.v')
        compiled = ctx.compile(['Gen_gmcond_mc.v', 'Bridge_gmcond.v', 'Gen_gmcond_q.v', 'C12.v'])
    ctx.rule('fitted GaussianMultivariate models with 2..6 columns (string labels in non-sorted order / integer labels; Gaussian, Uniform, '
             'mixed per-column and default marginals; one model with a duplicated and a constant column, i.e. a ridged matrix); conditioning sets: '
             'every non-empty proper subset of the columns for d <= 4, a random sample of subsets for d = 5, 6; per subset three calls: dict with keys '
             'in training order, dict with keys permuted (reversed / rotated), pandas Series; values alternate between training values and values far '
             'outside the training range (mean +- 50 sd); num_rows in 1..4; np.random.multivariate_normal is patched to record (means, covariance) '
             'and to return fixed rows; the argument of _get_conditional_distribution is recorded.  Coq evaluates Props/C12.run_case (generated '
             'label bookkeeping + generated conditional distribution over Q with the checked Gauss-Jordan inverse); compared: labels and values '
             'of the normal conditions, conditional mean and covariance (1e-9 relative + 64 u cond(S22) |S12| |S22^-1| |z|), free columns and '
             'their order, the output frame symbolically (fixed columns, order, back-transform by label) or the error class.  Per model also: '
             'empty dict, unknown label alone (both ValueError), a known plus an unknown label (the unknown one is silently ignored), all columns '
             '(ValueError): outside the property\'s quantifier, compared with the model only.  The oracle keys F11:series-conditions-raise and '
             'F19:condition-scores-relabelled-positionally (both fixed in /repo: baa4f86, fa9ce3f) are kept so that a regression is reported under the same keys')
    ctx.trusted += ['stats.norm.ppf / stats.norm.cdf, the fitted univariate cdf / percent_point, np.random.multivariate_normal (shape only) and '
                    'np.linalg.inv (instantiated by the checked rational inverse) are oracles',
                    'the list-of-lists rational matrix operations of Model/MatQ.v denote the mathcomp operations of Spec/Schur.v (not proved; '
                    'both renderings are generated from the same AST by the same translator)',
                    'pandas label semantics (Index.difference sorts; .loc selects by label; Series(values, index=...) is positional) are modelled '
                    'by hand in Model/CondSample.v and tied by the correspondence']
    ctx.assumptions += ['the conditional LAW is proved as the completion-of-squares identity of the Gaussian exponent (Bridge_gmcond.C12_conditional_law); '
                        'that multivariate_normal(mean, cov) samples N(mean, cov) is an oracle assumption; no statistical test is run']
    rng = np.random.default_rng(ctx.seed + 12)
    exprs, meta = [], []
    outside = []
    case_no = 0
    for mi, (d, nrows, kinds, labels, cfg_name) in enumerate(model_specs(rng, quick, ctx.seed)):
        X, kinds = G.make_table(rng, d, nrows, kinds, labels=labels, regular=True)
        cols = list(X.columns)
        spec = {'table': G.table_repr(X), 'columns': cols, 'cfg': cfg_name, 'seed': int(ctx.seed) + mi}
        try:
            m = fit_model(spec)
        except Exception as ex:
            ctx.obligation(f'corr:fit:{mi}', False, 'correspondence', f'{type(ex).__name__}: {ex}')
            continue
        ranks = G.label_ranks(cols)
        corr = m.correlation.to_numpy()
        mean, sd = X.mean(), X.std().replace(0.0, 1.0)
        calls = []
        for si, sub in enumerate(subsets(cols, rng, quick)):
            inside = {c: float(X[c].iloc[int(rng.integers(len(X)))]) for c in sub}
            far = {c: float(mean[c] + (50.0 if (si + cols.index(c)) % 2 else -50.0) * sd[c]) for c in sub}
            tr = [c for c in cols if c in sub]
            perm = list(reversed(tr)) if si % 2 == 0 else tr[1:] + tr[:1]
            vals_a, vals_b = (inside, far) if si % 2 == 0 else (far, inside)
            calls.append(('Dict', [(c, vals_a[c]) for c in tr], True))
            calls.append(('Dict', [(c, vals_b[c]) for c in perm], True))
            calls.append(('Series', [(c, vals_a[c]) for c in (tr if si % 2 else perm)], True))
        # outside the quantifier of the property
        unknown = 'not_a_column' if isinstance(cols[0], str) else 10 ** 6
        calls.append(('Dict', [], False))
        calls.append(('Dict', [(unknown, 1.0)], False))
        calls.append(('Dict', [(cols[0], float(X[cols[0]].iloc[0])), (unknown, 1.0)], False))
        calls.append(('Dict', [(c, float(X[c].iloc[0])) for c in cols], False))
        for kind, items, in_scope in calls:
            n = 1 + case_no % 4
            case_seed = int(ctx.seed) * 100003 + case_no
            case_no += 1
            R = run_impl(m, n, kind, items, case_seed)
            R['seed'] = case_seed
            keys = [k for k, _ in items]
            sample = {'model': mi, 'columns': [str(c) for c in cols], 'marginals': cfg_name, 'container': kind,
                      'conditions': [(str(k), v) for k, v in items], 'num_rows': n, 'impl': R['res'][0] if R['res'][0] == 'ok' else R['res'][1:]}
            ctx.case((mi, kind, tuple(map(str, keys)), n, in_scope), sample, nontrivial=in_scope)
            if in_scope:
                for key, clause, what in case_oracles(m, n, kind, items, R):
                    if key.startswith('F11'):
                        rp = repro_f11(spec, items)
                    elif key.startswith('F19'):
                        rp = repro_f19(spec, items)
                    else:
                        rp = repro_generic(spec, n, kind, items, case_seed)
                    ctx.violation(key, f'{clause}: {what} [model {mi}: columns {cols}, {cfg_name}; {kind} {items}]',
                                  {'clause': clause, 'sample': sample, 'model_spec': spec, 'repro': rp})
            else:
                outside.append({'conditions': [(str(k), v) for k, v in items], 'columns': [str(c) for c in cols], 'impl': R['res'][1:] if R['res'][0] == 'err' else 'ok'})
            # model inputs
            lab = dict(ranks)
            nxt = len(cols)
            for k in keys:
                if k not in lab:
                    lab[k] = nxt
                    nxt += 1
            tbl = [(lab[k], score_by_label(m, k, v)) for k, v in items if k in ranks]
            if not all(np.isfinite(s) for _, s in tbl):
                ctx.obligation(f'corr:scores-finite:{case_no}', False, 'correspondence', f'non-finite normal score for {items}')
                continue
            conds_coq = '[' + '; '.join(f'({lab[k]}%nat, {G.qlit(float(v))})' for k, v in items) + ']'
            tbl_coq = '[' + '; '.join(f'({l}%nat, {G.qlit(s)})' for l, s in tbl) + ']'
            exprs.append(f'run_case {G.natlist([ranks[c] for c in cols])}%nat {G.qmat(corr)} {kind} {n} {conds_coq} {tbl_coq}')
            meta.append((mi, m, spec, cols, lab, kind, items, n, case_seed, R, in_scope, tbl))
    ctx.extra['outside_quantifier_observations'] = outside[:8]
    if not compiled or not exprs:
        return
    outs = cases.run_vm_cases(ctx, 'Cases_C12', 'From Cop Require Import Model.CondSample Model.MatQ.\nFrom CopRun Require Import Gen_gmcond_q C12.',
                              exprs, per_file=max(1, len(exprs) // 16 + 1), scope_open='Open Scope Q_scope.')
    from scipy import stats
    n_agree = 0
    loose = 0
    for (mi, m, spec, cols, lab, kind, items, n, case_seed, R, in_scope, tbl), o in zip(meta, outs):
        name = f'{mi}:{kind}:{"/".join(str(k) for k, _ in items)}:{n}'
        if o is None:
            ctx.obligation(f'corr:eval:{name}', False, 'correspondence', 'model evaluation failed')
            continue
        try:
            ncq, mu, Sb, c1, inv_ok, sym, out = parse_coq(o)
        except Exception as ex:
            ctx.obligation(f'corr:eval:{name}', False, 'correspondence', f'unparsed model output ({ex}): {o[:300]}')
            continue
        inv_lab = {v: k for k, v in lab.items()}
        res = R['res']
        problems = []
        # (1) normal-score argument captured from the implementation: training order
        tr = [c for c in cols if c in dict(items)]
        if R['cap'].ppf:
            got = R['cap'].ppf[0][1].ravel().tolist()
            exp = [dict(tbl)[lab[c]] for c in tr]
            if len(got) != len(exp) or not np.allclose(got, exp, rtol=1e-12, atol=0):
                problems.append(f'captured normal scores {got} != by-label scores in training order {exp}')
        model_ok = isinstance(out, dict) and out['c'] == 'Ok'
        if model_ok and inv_ok == 'false':
            model_ok = False
            if not (res[0] == 'err' and res[1] == 'LinAlgError'):
                problems.append(f'model: conditioning block singular; implementation: {res[:2]}')
        elif not model_ok:
            if not err_matches(out['a'][0] if isinstance(out['a'][0], dict) else {'c': out['a'][0], 'a': []}, res):
                problems.append(f'model: {o[o.rfind("Err"):][:80]}; implementation: {res[1:] if res[0] == "err" else "returned a frame"}')
        else:
            if res[0] != 'ok':
                problems.append(f'model returns a frame; implementation raised {res[1:]}')
            else:
                frame = res[1]
                # (2) normal conditions as labelled by the code
                if R['cd']:
                    idx, vals, drawn = R['cd'][-1]
                    m_idx = [inv_lab[l] for l, _ in ncq]
                    m_vals = [float(qval(q)) for _, q in ncq]
                    if idx != m_idx or not np.allclose(vals, m_vals, rtol=1e-12, atol=0):
                        problems.append(f'normal conditions: implementation {list(zip(idx, vals.tolist()))}, model {list(zip(m_idx, m_vals))}')
                    m_free = [inv_lab[l] for l in c1]
                    if drawn != m_free:
                        problems.append(f'free columns: implementation {drawn}, model {m_free}')
                    means, cov, size = R['cap'].mvn[-1]
                    S = m.correlation
                    tol = lin_tol(S.loc[drawn, idx].to_numpy(), S.loc[idx, idx].to_numpy(), vals)
                    loose += tol > 1e-6
                    m_mu = np.array([float(qval(q)) for q in mu])
                    m_Sb = np.array([[float(qval(q)) for q in r] for r in Sb]).reshape(len(c1), len(c1))
                    if means.shape != m_mu.shape or not np.all(np.abs(means - m_mu) <= 1e-9 * (1 + np.abs(m_mu)) + tol):
                        problems.append(f'conditional mean: implementation {means.tolist()}, model {m_mu.tolist()} (tol {tol:.3g})')
                    if cov.shape != m_Sb.shape or not np.all(np.abs(cov - m_Sb) <= 1e-9 * (1 + np.abs(m_Sb)) + tol):
                        problems.append(f'conditional covariance: implementation {cov.tolist()}, model {m_Sb.tolist()} (tol {tol:.3g})')
                    if sym != 'true':
                        problems.append('model covariance not exactly symmetric (the fitted correlation is not symmetric)')
                    if size != n:
                        problems.append(f'size passed to multivariate_normal {size} != num_rows {n}')
                else:
                    problems.append('implementation did not call _get_conditional_distribution')
                # (3) output frame, symbolically
                mcols = [inv_lab[p[0]] for p in out['a'][0]]
                if list(frame.columns) != mcols or len(frame) != n:
                    problems.append(f'frame columns {list(frame.columns)} x {len(frame)}; model {mcols} x {n}')
                else:
                    draw = draw_for(case_seed)(np.zeros(len(c1)), None, n)
                    given = dict(items)
                    for lbl, column in out['a'][0]:
                        c = inv_lab[lbl]
                        a = frame[c].to_numpy(dtype=float)
                        if len(column) != n:
                            problems.append(f'model column {c!r} has {len(column)} rows')
                            continue
                        if all(t['c'] == 'SCond' for t in column):
                            e = np.array([given[inv_lab[t['a'][0]]] for t in column], dtype=float)
                        else:
                            ok_shape = all(t['c'] == 'SPpf' and t['a'][0] == lbl and t['a'][1]['c'] == 'SPhi'
                                           and t['a'][1]['a'][0]['c'] == 'SDraw' for t in column)
                            if not ok_shape:
                                problems.append(f'unexpected symbolic column for {c!r}: {column[:1]}')
                                continue
                            ks = [t['a'][1]['a'][0]['a'] for t in column]
                            x = np.array([draw[k, i] for k, i in ks])
                            with np.errstate(all='ignore'):
                                e = np.asarray(m.univariates[cols.index(c)].percent_point(stats.norm.cdf(x)), dtype=float)
                        if not np.allclose(a, e, rtol=1e-9, atol=1e-12, equal_nan=True):
                            problems.append(f'column {c!r}: implementation {a.tolist()[:3]}, model {e.tolist()[:3]}')
        ok = not problems
        n_agree += ok
        ctx.obligation(f'corr:case:{name}', ok, 'correspondence', '; '.join(problems)[:900])
        if not ok:
            ctx.violation('corr:conditional-sample-disagrees', f'model and implementation disagree on sample({n}, {kind} {items}) of model {mi} '
                          f'(columns {cols}, {spec["cfg"]}): ' + '; '.join(problems)[:600],
                          {'model_spec': spec, 'container': kind, 'conditions': items, 'num_rows': n, 'problems': problems,
                           'repro': repro_generic(spec, n, kind, items, case_seed)})
    ctx.extra['cases_with_linear_algebra_tolerance_above_1e-6 (ill-conditioned conditioning block)'] = int(loose)
    ctx.extra['cases_agreeing'] = n_agree
    ctx.extra['cases_compared'] = len(meta)


def run(ctx):
    """the check proper, then the history/recovery oracle (always, also after a broken translation)"""
    from .. import extra_oracles
    try:
        _run(ctx)
    finally:
        try:
            extra_oracles.gm_refit_history(ctx, 'C12')
            from .. import extra_oracles2
            extra_oracles2.gm_from_dict_conditional(ctx)
            from .. import extra_oracles3
            extra_oracles3.gm_failed_refit(ctx)
        except Exception as ex:       # the oracle itself must never hide the result of the check proper
            ctx.obligation('oracle:extra:raised', False, 'correspondence', repr(ex))
            ctx.violation('oracle:extra:raised:' + type(ex).__name__, 'history/recovery oracle raised ' + repr(ex), {'repro': '# see tools/vf/extra_oracles.py'})
