"""C13 — Gaussian-copula density/CDF equal the normal-score MVN, in any representation."""
import itertools
import warnings

import numpy as np

from .. import cases
from .. import gmscores as gm

EPS = gm.EPS32
METHODS = ['probability_density', 'cumulative_distribution', 'log_probability_density', 'pdf', 'cdf']
COQ_FN = {'probability_density': 'c13_pdf', 'pdf': 'c13_pdf', 'cumulative_distribution': 'c13_cdf', 'cdf': 'c13_cdf',
          'log_probability_density': 'c13_logpdf'}
MVN_FN = {'c13_pdf': 'pdf', 'c13_cdf': 'cdf', 'c13_logpdf': 'pdf'}
ERRMAP = {'NotFittedError': 'NotFittedError', 'ValueError_shape': 'ValueError', 'ValueError_no_arrays': 'ValueError'}
IMPORTS = 'From Cop Require Import Model.Scores.\nFrom CopRun Require Import {gen}.'
VM_HDR = 'From Coq Require Import String.\nFrom Coq Require Import List Bool Arith ZArith.\n{imports}\nImport ListNotations.\n'

# evaluation instance over the hand-written model, used ONLY when the generated definitions do not compile any more
# (translation refused / bridge broken): the correspondence then still yields a concrete failing input
FALLBACK = '''From Coq Require Import String.
From Coq Require Import List Bool Arith ZArith.
From Cop Require Import Model.Scores.
Import ListNotations.
Inductive ptok :=
| Pv (fn : string) (allow_singular : bool) (cov : nat) (row : list (nat * Z))
| Pun (f : string) (p : ptok).
Definition tok_mvn (fn : string) (scores : list (list (nat * Z))) (c : nat) (allow : bool)
  : result (list ptok) := Ok (map (Pv fn allow c) scores).
Definition tok_model (is_fitted : bool) (cols : list Z) : model Z Z (nat * Z) nat :=
  {| fitted := is_fitted; columns := cols;
     univariates := map (fun j v => (j, v)) (seq 0 (length cols)); correlation := 7 |}.
Definition c13_pdf (b : bool) (cols : list Z) (X : container Z Z) :=
  probability_density Z Z (nat * Z) Z.eqb nat ptok (tok_mvn "pdf") (tok_model b cols) X.
Definition c13_cdf (b : bool) (cols : list Z) (X : container Z Z) :=
  cumulative_distribution Z Z (nat * Z) Z.eqb nat ptok (fun s c => tok_mvn "cdf" s c false) (tok_model b cols) X.
Definition c13_logpdf (b : bool) (cols : list Z) (X : container Z Z) :=
  log_probability_density Z Z (nat * Z) Z.eqb nat ptok (tok_mvn "pdf") (Pun "log") (tok_model b cols) X.
'''


# ------------------------------------------------------------------------------------------------------
# query points and containers
# ------------------------------------------------------------------------------------------------------
def query_points(rng, m, df, n):
    """(n, d) array of distinct finite query points: training rows, points inside the range, far outside
    (1e3 and 1e6 ranges away, both sides), per-coordinate mixtures"""
    d = df.shape[1]
    lo, hi = df.min().to_numpy(float), df.max().to_numpy(float)
    span = np.maximum(hi - lo, 1.0)
    out = np.empty((n, d))
    for i in range(n):
        kind = int(rng.integers(0, 6))
        if kind == 0 and len(df):
            row = df.iloc[int(rng.integers(0, len(df)))].to_numpy(float) + rng.normal(0, 1e-3, d) * span
        elif kind in (1, 2):
            row = lo + rng.uniform(0, 1, d) * (hi - lo)
        elif kind == 3:
            row = lo + rng.uniform(-0.3, 1.3, d) * span
        elif kind == 4:
            row = lo + rng.choice([-1e3, 1e3, -1e6, 1e6, 0.5], d) * span * rng.uniform(0.5, 1.5, d)
        else:
            far = rng.random(d) < 0.4
            row = np.where(far, lo + rng.choice([-1e3, 1e3], d) * span, lo + rng.uniform(0, 1, d) * (hi - lo))
        out[i] = row
    # constant training columns: exactly the constant / below / above
    for j in range(d):
        if lo[j] == hi[j]:
            pick = rng.integers(0, 3, n)
            out[:, j] = np.where(pick == 0, lo[j], np.where(pick == 1, lo[j] - rng.uniform(0.1, 5, n), lo[j] + rng.uniform(0.1, 5, n)))
    return out


def build_cases(seed, tier):
    """deterministic list of models and query cases"""
    import pandas as pd
    quick = tier == 'quick'
    rng = np.random.default_rng(seed + 13)
    zoo = gm.model_zoo(rng, quick)
    sizes = [1, 2, 3, 5, 17] if quick else [1, 2, 3, 5, 17, 64, 150]
    out = []
    meth_i = itertools.count()

    def method():
        return METHODS[next(meth_i) % len(METHODS)]

    for mi, (name, m, df, info) in enumerate(zoo):
        d = info['d']
        L = list(df.columns)
        lid = {lab: 10 * (j + 1) for j, lab in enumerate(L)}
        si = itertools.count(mi)

        def size():
            return sizes[next(si) % len(sizes)]

        def add(kind, tag, header, pts, meth=None, fitted=True):
            # header: list of labels (None for positional arrays); pts: (n, len(header)) values
            out.append({'model': name, 'mi': mi, 'kind': kind, 'tag': tag, 'header': header, 'pts': np.asarray(pts, float),
                        'method': meth or method(), 'fitted': fitted, 'lid': lid})
        perms = gm.all_or_some_perms(d, rng, 6 if quick else 40)
        for p in perms:
            n = size()
            pts = query_points(rng, m, df, n)
            add('frame', 'perm' + ''.join(map(str, p)) + f':n{n}', [L[k] for k in p], pts[:, p])
        # every method on the identity frame and on a reversed frame
        for meth in METHODS:
            pts = query_points(rng, m, df, 3)
            add('frame', f'identity:n3:{meth}', L, pts, meth)
        for n in ([0, 1, 4] if quick else [0, 1, 4, 33, 150]):
            add('array2', f'n{n}', None, query_points(rng, m, df, n))
        for meth in METHODS[:3]:
            add('array1', meth, None, query_points(rng, m, df, 1), meth)
        for p in perms[:: max(1, len(perms) // 4)][:4]:
            pts = query_points(rng, m, df, 1)
            add('series', 'perm' + ''.join(map(str, p)), [L[k] for k in p], pts[:, p])
        # extra (non-training) column in the frame / Series
        for kind in ('frame', 'series'):
            n = 1 if kind == 'series' else size()
            pts = query_points(rng, m, df, n)
            pos = int(rng.integers(0, d + 1))
            hdr = L[:pos] + ['__extra__'] + L[pos:]
            add(kind, f'extra-column@{pos}:n{n}', hdr, np.insert(pts, pos, rng.normal(size=n), axis=1))
        # missing training columns (what the code does: silently skipped)
        drops = [[int(rng.integers(0, d))]]
        if d >= 3:
            drops.append(sorted(int(x) for x in rng.choice(d, size=d - 1, replace=False)))
        for dr in drops:
            keep = [k for k in range(d) if k not in dr]
            n = size()
            pts = query_points(rng, m, df, n)
            add('frame', 'missing' + ''.join(map(str, dr)) + f':n{n}', [L[k] for k in keep], pts[:, keep], 'probability_density')
        add('frame', 'no-training-column', ['__extra__', '__other__'], rng.normal(size=(2, 2)))
        add('array2', 'wrong-width-less', None, query_points(rng, m, df, 2)[:, : d - 1])
        add('array2', 'wrong-width-more', None, np.hstack([query_points(rng, m, df, 2), np.ones((2, 1))]))
        add('array1', 'wrong-width', None, np.hstack([query_points(rng, m, df, 1), np.ones((1, 1))]))
        if mi < 3:
            add('frame', 'unfitted', L, query_points(rng, m, df, 2), METHODS[mi], fitted=False)
    return zoo, out


def container_of(case, labels_of_model):
    """the Python object handed to the implementation"""
    import pandas as pd
    pts, hdr = case['pts'], case['header']
    if case['kind'] == 'frame':
        return pd.DataFrame({h: pts[:, k] for k, h in enumerate(hdr)}, columns=hdr) if len(hdr) else pd.DataFrame(pts)
    if case['kind'] == 'series':
        return pd.Series(pts[0], index=hdr)
    if case['kind'] == 'array2':
        return np.array(pts, dtype=float)
    return np.array(pts[0], dtype=float)


def coq_container(case):
    """Coq container over cell-id tokens; cell id of (row i, position k) = 1000 * i + k"""
    pts, hdr, lid = case['pts'], case['header'], case['lid']
    n, w = pts.shape

    def lab(h):
        return {'__extra__': 901, '__other__': 902}[h] if isinstance(h, str) and h.startswith('__') else lid[h]
    ids = [[1000 * i + k for k in range(w)] for i in range(n)]
    if case['kind'] == 'frame':
        return f'(CFrame (Build_frame {gm.coq_list(lab(h) for h in hdr)} {gm.coq_rows(ids)}))'
    if case['kind'] == 'series':
        return '(CSeries ' + gm.coq_list(f'({lab(h)}, {ids[0][k]})' for k, h in enumerate(hdr)) + ')'
    if case['kind'] == 'array2':
        return f'(CArray2 {gm.coq_rows(ids)})'
    return f'(CArray1 {gm.coq_list(ids[0])})'


def coq_expr(case, ncols_labels):
    b = 'true' if case['fitted'] else 'false'
    return f'{COQ_FN[case["method"]]} {b} {gm.coq_list(ncols_labels)} {coq_container(case)}'


# ------------------------------------------------------------------------------------------------------
# running the implementation with the MVN oracle captured
# ------------------------------------------------------------------------------------------------------
def run_impl(m, X, method, sent_rng):
    """calls m.<method>(X) with scipy.stats.multivariate_normal.{pdf,cdf,logpdf,logcdf} replaced by recorders that
    return a sentinel vector; everything is restored afterwards"""
    import copulas.multivariate.gaussian as G
    mvn = G.stats.multivariate_normal
    rec = []

    def mk(fn):
        def recorder(x, *args, **kw):
            x = np.array(x, dtype=float, copy=True)
            nrow = x.shape[0] if x.ndim == 2 else 1
            ret = sent_rng.uniform(0.05, 0.95, size=nrow)
            rec.append({'fn': fn, 'x': x, 'args': args, 'kw': dict(kw), 'ret': ret})
            return ret
        return recorder
    patches = [gm.Patched(mvn, fn, mk(fn)) for fn in ('pdf', 'cdf', 'logpdf', 'logcdf')]
    # the data handed to each fitted marginal's cdf (which column goes to which univariate)
    cdf_calls = {}

    def spy(j, orig):
        def cdf(X, *a, **k):
            cdf_calls.setdefault(j, []).append(np.array(X, dtype=float, copy=True))
            return orig(X, *a, **k)
        return cdf
    for j, u in enumerate(m.univariates or []):
        patches.append(gm.Patched(u, 'cdf', spy(j, u.cdf)))
    for p in patches:
        p.__enter__()
    try:
        with warnings.catch_warnings():
            warnings.simplefilter('ignore')
            with np.errstate(all='ignore'):
                try:
                    res = ('ok', getattr(m, method)(X))
                except Exception as ex:
                    res = ('err', type(ex).__name__, str(ex)[:120])
    finally:
        for p in reversed(patches):
            p.__exit__(None, None, None)
    if rec:
        rec[0]['cdf_calls'] = cdf_calls
    return res, rec


def expected_scores(m, case, rows_tokens):
    """resolve the model's opaque tokens: entry (j, cell) -> norm.ppf(clip(cdf_j(value of the cell)))"""
    from scipy.stats import norm
    pts = case['pts']
    n = len(rows_tokens)
    width = len(rows_tokens[0]) if n else 0
    exp = np.empty((n, width))
    for p in range(width):
        js = {rows_tokens[i][p][0] for i in range(n)}
        if len(js) != 1:
            raise ValueError(f'model: column {p} of the score matrix mixes univariates {js}')
        j = js.pop()
        vals = np.array([pts[rows_tokens[i][p][1] // 1000, rows_tokens[i][p][1] % 1000] for i in range(n)])
        with np.errstate(all='ignore'):
            u = np.asarray(m.univariates[j].cdf(vals), dtype=float)
            exp[:, p] = norm.ppf(np.clip(u, EPS, 1 - EPS))
    return exp


def close(a, b, atol=1e-9):
    a, b = np.asarray(a, float), np.asarray(b, float)
    if a.shape != b.shape:
        return False
    fin = np.isfinite(a) & np.isfinite(b)
    if not np.array_equal(np.isfinite(a), np.isfinite(b)):
        return False
    if not np.array_equal(a[~fin], b[~fin], equal_nan=True):
        return False
    return bool(np.all(np.abs(a[fin] - b[fin]) <= atol * (1 + np.abs(b[fin]))))


def parse_model(term):
    """-> ('err', name) | ('ok', [(fn, allow, cov, [(j, cell)...], logged)])"""
    if isinstance(term, tuple) and term[0] == '@' and term[1] == 'Err':
        return ('err', str(term[2][0]))
    if not (isinstance(term, tuple) and term[0] == '@' and term[1] == 'Ok'):
        raise ValueError(f'unexpected model output {term!r}')
    rows = []
    for t in term[2][0]:
        logged = None
        if t[1] == 'Pun':
            logged = t[2][0][1]
            t = t[2][1]
        if t[1] != 'Pv':
            raise ValueError(f'unexpected row token {t!r}')
        fn, allow, cov, row = t[2]
        rows.append((fn[1], allow == 'true', cov, [(a[1], a[2]) for a in row], logged))
    return ('ok', rows)


def compare(m, case, model, res, rec):
    """returns list of (what, detail) disagreements between the model's prediction and the observed call"""
    bad = []
    if model[0] == 'err':
        want = ERRMAP[model[1]]
        if res[0] != 'err' or res[1] != want:
            bad.append(('outcome', f'model: raises {want} ({model[1]}); implementation: {res[0]} {res[1] if res[0] == "err" else ""}'))
        return bad
    rows = model[1]
    if res[0] != 'ok':
        return [('outcome', f'model: returns {len(rows)} value(s); implementation raises {res[1]}: {res[2]}')]
    if len(rec) != 1:
        return [('oracle-calls', f'expected exactly one scipy multivariate_normal call, observed {[r["fn"] for r in rec]}')]
    r = rec[0]
    fn = rows[0][0] if rows else MVN_FN[COQ_FN[case['method']]]
    allow = rows[0][1] if rows else (fn == 'pdf')
    logged = rows[0][4] if rows else ('log' if case['method'] == 'log_probability_density' else None)
    if r['fn'] != fn:
        bad.append(('oracle-function', f'model: multivariate_normal.{fn}; implementation called .{r["fn"]}'))
    if bool(r['kw'].get('allow_singular', False)) != allow:
        bad.append(('allow_singular', f'model: allow_singular={allow}; implementation passed {r["kw"].get("allow_singular", "<default False>")}'))
    if r['args'] or set(r['kw']) - {'cov', 'allow_singular'}:
        bad.append(('oracle-arguments', f'unexpected extra arguments args={r["args"]!r} kw={sorted(r["kw"])}'))
    cov = r['kw'].get('cov')
    if cov is None or not np.array_equal(np.asarray(cov, float), np.asarray(m.correlation, float)):
        bad.append(('cov', 'cov argument is not the fitted correlation matrix'))
    toks = [row[3] for row in rows]
    x = r['x']
    if x.ndim == 1:
        x = x.reshape(1, -1)
    width = len(toks[0]) if toks else x.shape[1]
    if x.shape != (len(toks), width):
        bad.append(('score-shape', f'model: score matrix {len(toks)}x{width}; implementation handed {x.shape} to scipy'))
    elif toks:
        calls = r.get('cdf_calls') or {}
        for p_ in range(width):
            j_ = toks[0][p_][0]
            vals = np.array([case['pts'][t_[p_][1] // 1000, t_[p_][1] % 1000] for t_ in toks])
            if calls and (len(calls.get(j_, [])) != 1 or not np.array_equal(calls[j_][0].ravel(), vals)):
                got = [c.ravel().tolist()[:4] for c in calls.get(j_, [])]
                bad.append(('cdf-input', f'model: univariate {j_} evaluates its cdf once, on the cells {vals.tolist()[:4]}...; implementation: {got}'))
                break
        exp = expected_scores(m, case, toks)
        if not close(x, exp):
            ij = np.argwhere(~np.isclose(x, exp, rtol=1e-9, atol=1e-9, equal_nan=True))
            i, p = (int(ij[0][0]), int(ij[0][1])) if len(ij) else (0, 0)
            bad.append(('scores', f'score[{i}][{p}]: model says norm.ppf(clip(cdf_{toks[i][p][0]}(cell row {toks[i][p][1] // 1000} pos {toks[i][p][1] % 1000}'
                                  f' = {case["pts"][toks[i][p][1] // 1000, toks[i][p][1] % 1000]!r}))) = {exp[i, p]!r}; implementation handed {x[i, p]!r}'))
    out = np.atleast_1d(np.asarray(res[1], dtype=float))
    want = r['ret'] if logged is None else getattr(np, logged)(r['ret'])
    if out.shape != want.shape or not np.array_equal(out, want):
        bad.append(('result', f'result is not {"np." + logged + " of " if logged else ""}the value returned by multivariate_normal.{fn}'))
    return bad


def describe(case):
    return {'model': case['model'], 'container': case['kind'], 'variant': case['tag'], 'method': case['method'],
            'header': None if case['header'] is None else [str(h) for h in case['header']], 'rows': int(case['pts'].shape[0]),
            'first_row': [float(v) for v in case['pts'][0]] if len(case['pts']) else []}


def repro_snippet(seed, tier, case):
    return ('# regenerates the fitted model and the query deterministically, runs the implementation and checks the scores handed to\n'
            '# scipy against an independent evaluation by label (exit status 1 iff they differ)\n'
            'import sys\nfrom vf.props.C13 import replay\n'
            f'sys.exit(replay({seed}, {tier!r}, {case["model"]!r}, {case["kind"]!r}, {case["tag"]!r}, {case["method"]!r}))\n')


# ------------------------------------------------------------------------------------------------------
# independent reference (Python) of the property, used by the witness search and by replays
# ------------------------------------------------------------------------------------------------------
def ref_scores(m, X):
    """normal scores of X by LABEL in training order; X: DataFrame (any column order), Series, 1-d/2-d array in
    training order.  Requires every training column."""
    import pandas as pd
    from scipy.stats import norm
    if isinstance(X, pd.Series):
        get = lambda c: np.array([X[c]], dtype=float)
    elif isinstance(X, pd.DataFrame):
        get = lambda c: X[c].to_numpy(dtype=float)
    else:
        A = np.atleast_2d(np.asarray(X, dtype=float))
        if A.shape[1] != len(m.columns):
            raise ValueError('width')
        get = lambda c: A[:, list(m.columns).index(c)]
    cols = []
    for c, u in zip(m.columns, m.univariates):
        with np.errstate(all='ignore'):
            cols.append(norm.ppf(np.clip(np.asarray(u.cdf(get(c)), float), EPS, 1 - EPS)))
    return np.column_stack(cols)


def ref_pdf(m, S):
    from scipy.stats import multivariate_normal
    return np.atleast_1d(multivariate_normal.pdf(S, mean=np.zeros(S.shape[1]), cov=np.asarray(m.correlation, float), allow_singular=True))


def ref_cdf(m, S, seed):
    from scipy.stats import multivariate_normal
    st = np.random.get_state()
    try:
        np.random.seed(seed)          # scipy's MVN CDF is a randomised quasi-Monte-Carlo integral driven by the global generator
        return np.atleast_1d(multivariate_normal.cdf(S, mean=np.zeros(S.shape[1]), cov=np.asarray(m.correlation, float)))
    finally:
        np.random.set_state(st)


def impl_call(m, method, X, seed=None):
    st = np.random.get_state()
    try:
        if seed is not None:
            np.random.seed(seed)
        with warnings.catch_warnings():
            warnings.simplefilter('ignore')
            with np.errstate(all='ignore'):
                return np.atleast_1d(np.asarray(getattr(m, method)(X), dtype=float))
    finally:
        np.random.set_state(st)


def closed_form_pdf(C, S):
    """zero-mean MVN density by the textbook formula (numpy.linalg), for well-conditioned C"""
    d = C.shape[0]
    inv = np.linalg.inv(C)
    q = np.einsum('ij,jk,ik->i', S, inv, S)
    return np.exp(-0.5 * q) / np.sqrt((2 * np.pi) ** d * np.linalg.det(C))


def witness(ctx, zoo, seed, quick):
    """the property's statement as an executable oracle on the implementation (real scipy, nothing patched)"""
    import pandas as pd
    rng = np.random.default_rng(seed + 1313)
    hits = 0
    answered = []

    def viol(key, what, m_name, X, extra=None, method='probability_density'):
        nonlocal hits
        hits += 1
        rp = {'model': m_name, 'what': what, 'X': np.asarray(X, float).tolist() if not isinstance(X, (pd.DataFrame, pd.Series)) else
              {'columns': [str(c) for c in (X.columns if isinstance(X, pd.DataFrame) else X.index)], 'values': np.asarray(X, float).tolist()},
              'repro': ('import sys\nfrom vf.props.C13 import replay_witness\n'
                        f'sys.exit(replay_witness({seed}, {"quick" if quick else "thorough"!r}, {m_name!r}))\n')}
        rp.update(extra or {})
        ctx.violation(key, what, rp)

    for name, m, df, info in zoo:
        d = info['d']
        L = list(df.columns)
        n = 6 if quick else 24
        pts = query_points(rng, m, df, n)
        Xf = pd.DataFrame(pts, columns=L)
        S = ref_scores(m, Xf)
        C = np.asarray(m.correlation, float)
        # ---- W1 density = MVN density at the normal scores
        p_impl = impl_call(m, 'probability_density', Xf)
        p_ref = ref_pdf(m, S)
        ok1 = close(p_impl, p_ref, 1e-9)
        ctx.case(('witness', name, 'pdf'), {'oracle': 'pdf = independent MVN pdf at independently computed scores', 'model': name,
                                            'rows': n, 'agree': ok1}, nontrivial=True)
        if not ok1:
            i = int(np.argmax(~np.isclose(p_impl, p_ref, rtol=1e-9, atol=0, equal_nan=True))) if p_impl.shape == p_ref.shape else 0
            viol('witness:pdf-differs-from-mvn', f'{name}: probability_density(row {pts[i].tolist()}) = {p_impl[i] if len(p_impl) > i else p_impl} but the zero-mean MVN '
                 f'density with the fitted correlation at the normal scores {S[i].tolist()} is {p_ref[i]}', name, Xf)
        if np.linalg.cond(C) < 1e6 and d <= 6:
            cf = closed_form_pdf(C, S)
            okc = close(p_ref, cf, 1e-7)
            ctx.obligation(f'support:scipy-mvn-pdf-is-closed-form:{name}', okc, 'correspondence',
                           'scipy multivariate_normal.pdf vs exp(-s^T C^-1 s / 2)/sqrt((2 pi)^d det C)')
        # ---- W5 log density
        lp = impl_call(m, 'log_probability_density', Xf)
        with np.errstate(all='ignore'):
            if not (lp.shape == p_impl.shape and np.array_equal(lp, np.log(p_impl), equal_nan=True)):
                viol('witness:logpdf-not-log-of-pdf', f'{name}: log_probability_density != log(probability_density)', name, Xf)
        # ---- W2 CDF = MVN CDF at the scores, range, monotone per coordinate
        k = min(n, 4 if quick else 10)
        c_impl = impl_call(m, 'cumulative_distribution', Xf.iloc[:k], seed=77)
        c_ref = ref_cdf(m, S[:k], 77)
        ok2 = close(c_impl, c_ref, 1e-9)
        ctx.case(('witness', name, 'cdf'), {'oracle': 'cdf = independent MVN cdf at the scores (same quasi-MC seed)', 'model': name, 'rows': k,
                                            'agree': ok2}, nontrivial=True)
        if not ok2:
            viol('witness:cdf-differs-from-mvn', f'{name}: cumulative_distribution {c_impl.tolist()} vs MVN CDF at the normal scores {c_ref.tolist()}', name, Xf.iloc[:k])
        slack = 1e-12 if d <= 2 else 2e-4        # d >= 3: scipy integrates by randomised QMC with abseps = 1e-5
        if np.any(c_impl < -slack) or np.any(c_impl > 1 + slack) or np.any(~np.isfinite(c_impl)):
            viol('witness:cdf-outside-unit-interval', f'{name}: cumulative_distribution returned {c_impl.tolist()}', name, Xf.iloc[:k])
        span = np.maximum(df.max().to_numpy(float) - df.min().to_numpy(float), 1.0)
        for j in range(d):
            for step in (0.25 * span[j], 1e3 * span[j]):
                Y = Xf.iloc[:k].copy()
                Y[L[j]] = Y[L[j]] + step
                # scores: exact monotonicity, other coordinates untouched
                S2 = np.asarray(m._transform_to_normal(Y), float)
                S1 = np.asarray(m._transform_to_normal(Xf.iloc[:k]), float)
                if np.any(S2[:, j] < S1[:, j]) or not np.array_equal(np.delete(S1, j, 1), np.delete(S2, j, 1)):
                    viol('witness:score-not-monotone', f'{name}: raising coordinate {L[j]!r} by {step} lowered its normal score or changed another score', name, Y)
                if step > span[j]:
                    continue
                c2 = impl_call(m, 'cumulative_distribution', Y, seed=77)
                if np.any(c2 < c_impl - slack):
                    i = int(np.argmin(c2 - c_impl))
                    viol('witness:cdf-not-monotone', f'{name}: raising coordinate {L[j]!r} of row {pts[i].tolist()} by {step} lowers the CDF from {c_impl[i]} to {c2[i]}', name, Y)
        # ---- W3 row i depends only on row i
        alone = np.concatenate([impl_call(m, 'probability_density', Xf.iloc[i:i + 1]) for i in range(n)])
        Z = Xf.copy()
        Z.iloc[1:] = Z.iloc[1:].to_numpy()[::-1] if n > 2 else Z.iloc[1:]
        other = impl_call(m, 'probability_density', Z)
        if not (close(alone, p_impl, 1e-12) and close(other[:1], p_impl[:1], 1e-12)):
            viol('witness:not-rowwise', f'{name}: the density of a row changes with the other rows of the batch', name, Xf)
        # ---- W4 same result for every container / permutation
        perms = gm.all_or_some_perms(d, rng, 4)
        for p in perms[:6]:
            Xp = Xf[[L[q] for q in p]]
            if not close(impl_call(m, 'probability_density', Xp), p_impl, 1e-12):
                viol('witness:permutation-changes-pdf', f'{name}: probability_density differs for the column order {[str(L[q]) for q in p]}', name, Xp)
            if not close(impl_call(m, 'pdf', Xp.iloc[0]), p_impl[:1], 1e-12):
                viol('witness:series-changes-pdf', f'{name}: pdf(Series in order {[str(L[q]) for q in p]}) differs from the DataFrame row', name, Xp.iloc[:1])
        if not (close(impl_call(m, 'pdf', pts), p_impl, 1e-12) and close(impl_call(m, 'pdf', pts[0]), p_impl[:1], 1e-12)):
            viol('witness:array-changes-pdf', f'{name}: pdf(2-d / 1-d array in training order) differs from the DataFrame result', name, pts)
        pr = perms[-1]
        cperm = impl_call(m, 'cdf', Xf.iloc[:k][[L[q] for q in pr]], seed=77)
        carr = impl_call(m, 'cdf', pts[:k], seed=77)
        if not (close(cperm, c_impl, 1e-9) and close(carr, c_impl, 1e-9)):
            viol('witness:container-changes-cdf', f'{name}: cdf differs between DataFrame, permuted DataFrame and array', name, Xf.iloc[:k])
        # ---- W6 (D3) a frame that lacks a training column is not a query point: is it answered anyway?
        if d >= 2:
            sub = Xf[[L[0]]].iloc[:2]
            try:
                with warnings.catch_warnings():
                    warnings.simplefilter('ignore')
                    np.atleast_1d(np.asarray(m.probability_density(sub), float))
                answered.append(name)
            except Exception:
                pass
    ctx.extra['models_answering_a_frame_with_one_training_column'] = answered
    d3 = d3_probe()
    ctx.case(('witness', 'D3'), {'oracle': 'density of a frame lacking training columns must not be answered', 'answered': d3 is not None})
    # QUIRK, not a violation of C13: a frame lacking a training column is not a query point of the property (its quantifier ranges over
    # containers and column PERMUTATIONS of the training columns).  probability_density answers it anyway (missing columns are skipped by
    # `if column_name in X`, scipy broadcasts the 1-column score matrix), cumulative_distribution raises.  An earlier version of this check
    # reported it as finding F27; that demanded more than C13 states and was withdrawn.  The observation is kept in the evidence.
    ctx.extra['quirk_frame_lacking_training_columns_answered_by_pdf'] = d3 is not None
    ctx.extra['witness_search_hits'] = hits


D3_REPRO = '''import numpy as np, pandas as pd, sys
from copulas.multivariate import GaussianMultivariate
from copulas.univariate import GaussianUnivariate
rng = np.random.default_rng(0)
df = pd.DataFrame({'a': rng.normal(size=30), 'b': rng.normal(size=30) + 3, 'c': rng.normal(size=30) * 2})
m = GaussianMultivariate(distribution=GaussianUnivariate); m.fit(df)
try:
    v = m.probability_density(df[['a']].iloc[:2])
except Exception as e:
    print('raises', type(e).__name__); sys.exit(0)
print('density of a point with two missing coordinates:', v); sys.exit(1)
'''


def d3_probe():
    """fixed example of D3; returns the values returned by the implementation, or None when it raises"""
    import pandas as pd
    from copulas.multivariate import GaussianMultivariate
    from copulas.univariate import GaussianUnivariate
    rng = np.random.default_rng(0)
    df = pd.DataFrame({'a': rng.normal(size=30), 'b': rng.normal(size=30) + 3, 'c': rng.normal(size=30) * 2})
    with warnings.catch_warnings():
        warnings.simplefilter('ignore')
        m = GaussianMultivariate(distribution=GaussianUnivariate)
        m.fit(df)
        try:
            return [round(float(v), 12) for v in np.atleast_1d(m.probability_density(df[['a']].iloc[:2]))]
        except Exception:
            return None


def replay(seed, tier, model, kind, tag, method):
    """exit status for a correspondence replay: 1 iff the scores handed to scipy differ from the by-label reference"""
    zoo, cs = build_cases(seed, tier)
    case = next(c for c in cs if (c['model'], c['kind'], c['tag'], c['method']) == (model, kind, tag, method))
    m = zoo[case['mi']][1]
    if not case['fitted']:
        from copulas.multivariate import GaussianMultivariate
        m = GaussianMultivariate()
    X = container_of(case, None)
    res, rec = run_impl(m, X, method, np.random.default_rng(1))
    print('case', describe(case))
    print('implementation:', res[0], res[1] if res[0] == 'err' else np.asarray(res[1]).tolist(), '| scipy calls:', [(r['fn'], sorted(r['kw'])) for r in rec])
    hdr = case['header']
    full = case['fitted'] and (hdr is None and case['pts'].shape[1] == len(m.columns) or hdr is not None and set(m.columns) <= set(hdr))
    if not full:
        # malformed query: the model predicts an exception (or, for missing columns, a narrower matrix)
        if case['fitted'] and hdr is not None and set(hdr) & set(m.columns):
            want_w = len(set(hdr) & set(m.columns))
            okk = res[0] == 'ok' and rec and rec[0]['x'].reshape(len(case['pts']), -1).shape[1] == want_w
        else:
            okk = res[0] == 'err' and res[1] in ('ValueError', 'NotFittedError')
        print('expected behaviour on a malformed query:', okk)
        return 0 if okk else 1
    if res[0] != 'ok' or len(rec) != 1:
        print('expected exactly one multivariate_normal call and a normal return')
        return 1
    S = ref_scores(m, X)
    x = rec[0]['x'].reshape(S.shape) if rec[0]['x'].size == S.size else rec[0]['x']
    print('scores handed to scipy:', x.tolist(), '\nreference by label   :', S.tolist())
    fn_ok = rec[0]['fn'] == MVN_FN[COQ_FN[method]] and bool(rec[0]['kw'].get('allow_singular', False)) == (rec[0]['fn'] == 'pdf') \
        and np.array_equal(np.asarray(rec[0]['kw'].get('cov')), np.asarray(m.correlation))
    out = np.atleast_1d(np.asarray(res[1], float))
    want = np.log(rec[0]['ret']) if method == 'log_probability_density' else rec[0]['ret']
    print('function/arguments as modelled:', fn_ok, '| result passes the oracle value through:', np.array_equal(out, want))
    return 0 if (close(x, S) and fn_ok and np.array_equal(out, want)) else 1


def replay_witness(seed, tier, model):
    class C:          # minimal stand-in for Ctx
        def __init__(self):
            self.v, self.extra = [], {}

        def case(self, *a, **k):
            pass

        def obligation(self, *a, **k):
            pass

        def violation(self, key, what, rp, found=True):
            self.v.append((key, what))
    zoo = gm.model_zoo(np.random.default_rng(seed + 13), tier == 'quick')
    c = C()
    witness(c, [z for z in zoo if z[0] == model], seed, tier == 'quick')
    bad = [v for v in c.v if not v[0].startswith('D3:')]
    for v in bad:
        print(v)
    return 1 if bad else 0


# ------------------------------------------------------------------------------------------------------
def _run(ctx):
    quick = ctx.tier == 'quick'
    status = gm.generate_scores(ctx)
    for k, v in status.items():
        ctx.obligation(f'translate:{k}', v is None, 'translation', v or '')
    ctx.copy_src('Props/C13.v')
    proved = all(v is None for v in status.values()) and ctx.compile(['Gen_gm_scores.v', 'C13.v'])
    gen = 'Gen_gm_scores C13'
    if not proved:
        # tie broken: evaluate the hand-written model instead so that a concrete failing input can still be exhibited
        ctx.write('C13_fallback.v', FALLBACK)
        ctx.compile(['C13_fallback.v'], count_statements=False)
        gen = 'C13_fallback'
    ctx.rule('models: GaussianMultivariate fitted on Gaussian-copula tables with 2..6 columns (default marginal selection, a class, a '
             'fully-qualified name, an instance, per-column dicts over all families, constant columns, string / integer labels). '
             'queries: DataFrames in every column permutation (exhaustive for d <= 4, sampled above), 2-d arrays, Series (permuted index), '
             '1-d arrays, batches of 0..17 rows (..150 thorough), points on training rows, inside the range, 1e3 and 1e6 ranges outside; '
             'extra columns, missing columns, no training column, wrong widths, unfitted models. '
             'Each call runs with scipy.stats.multivariate_normal.{pdf,cdf,logpdf,logcdf} replaced by recorders; the recorded function, '
             'arguments (cov, allow_singular), score matrix and pass-through of the result are compared with vm_compute of the GENERATED '
             'definitions (gm_probability_density, ...) on opaque tokens: which cdf of which cell lands where')
    zoo, cs = build_cases(ctx.seed, ctx.tier)
    ncols = {name: [10 * (j + 1) for j in range(info['d'])] for name, m, df, info in zoo}
    exprs = [coq_expr(c, ncols[c['model']]) for c in cs]
    imports = IMPORTS.format(gen=gen)
    outs = cases.run_vm_cases(ctx, 'Cases_C13', imports, exprs, per_file=40, hdr=VM_HDR, scope_open='Open Scope Z_scope.')
    sent = np.random.default_rng(ctx.seed + 4242)
    from copulas.multivariate import GaussianMultivariate
    n_ok = 0
    for case, o in zip(cs, outs):
        m = zoo[case['mi']][1] if case['fitted'] else GaussianMultivariate()
        X = container_of(case, None)
        res, rec = run_impl(m, X, case['method'], sent)
        key = f"{case['model']}:{case['kind']}:{case['tag']}:{case['method']}"
        if o is None:
            ctx.obligation(f'corr:{key}', False, 'correspondence', 'model evaluation failed')
            continue
        try:
            model = parse_model(gm.parse_term(o))
            bad = compare(zoo[case['mi']][1], case, model, res, rec)
        except Exception as ex:
            bad = [('harness', f'{type(ex).__name__}: {ex}')]
        ctx.obligation(f'corr:{key}', not bad, 'correspondence', '; '.join(f'{a}: {b}' for a, b in bad))
        ctx.case(key, describe(case), nontrivial=(model[0] == 'ok' and len(case['pts']) > 0) if not bad or bad[0][0] != 'harness' else False)
        if bad:
            what = f"{case['model']} {case['method']}({case['kind']} {case['tag']}): " + '; '.join(f'{a}: {b}' for a, b in bad)
            kslug = f"corr:{bad[0][0]}:{case['kind']}"
            ctx.violation(kslug, what, {**describe(case), 'points': case['pts'].tolist(), 'model_prediction': o[:1500],
                                        'disagreements': bad, 'repro': repro_snippet(ctx.seed, ctx.tier, case)})
        else:
            n_ok += 1
    ctx.extra['correspondence_cases_agreeing'] = n_ok
    ctx.extra['models'] = {name: info for name, m, df, info in zoo}
    ctx.extra['container_mix'] = {k: sum(1 for c in cs if c['kind'] == k) for k in ('frame', 'series', 'array2', 'array1')}
    witness(ctx, zoo, ctx.seed, quick)
    ctx.trusted += ['scipy.stats.multivariate_normal.pdf/cdf, scipy.stats.norm.ppf and the fitted univariates\' cdf are oracles (section variables); '
                    'that scipy\'s functions are the zero-mean MVN density/CDF is checked only numerically (closed-form density, support obligations)',
                    'tools/vf/gmscores.py: shape-checking translators for _transform_to_normal / probability_density / cumulative_distribution / '
                    'log_probability_density and the fixed denotations pd_DataFrame_rows, series_to_frame_T, `label in X`, X[label]',
                    'pandas semantics of distinct column labels (duplicated labels are outside the model)']
    ctx.assumptions += ['column labels of the query are pairwise distinct', 'query cells are finite floats',
                        'monotonicity/range of the copula CDF is reduced to the same properties of the MVN CDF oracle (hypotheses mvn_cdf_mono, '
                        'mvn_cdf_range) and monotone marginal CDFs (C03)']


def run(ctx):
    """the check proper, then the history/recovery oracle (always, also after a broken translation)"""
    from .. import extra_oracles
    try:
        _run(ctx)
    finally:
        try:
            extra_oracles.gm_refit_history(ctx, 'C13')
            from .. import extra_oracles2
            extra_oracles2.gm_query(ctx)
            from .. import extra_oracles3
            extra_oracles3.gm_restored_models(ctx)
            extra_oracles3.gm_query_dtypes(ctx)
        except Exception as ex:       # the oracle itself must never hide the result of the check proper
            ctx.obligation('oracle:extra:raised', False, 'correspondence', repr(ex))
            ctx.violation('oracle:extra:raised:' + type(ex).__name__, 'history/recovery oracle raised ' + repr(ex), {'repro': '# see tools/vf/extra_oracles.py'})
