import argparse
import importlib
import json
import os
import sys
import traceback

from .core import Ctx, run_snippet, VERIF


def main():
    ap = argparse.ArgumentParser()
    ap.add_argument('pid')
    ap.add_argument('--tier', default=os.environ.get('VERIF_TIER', 'quick'), choices=['quick', 'thorough'])
    ap.add_argument('--replay')
    a = ap.parse_args()
    seed = int(os.environ.get('VERIF_SEED', '0') or 0)
    if a.replay:
        body = json.load(open(a.replay))
        code = (body.get('replay') or {}).get('repro')
        print(json.dumps({k: v for k, v in body.items() if k != 'replay'}, indent=1))
        if not code:
            print('no executable repro in this replay file (failed obligation only):')
            print(json.dumps(body.get('replay'), indent=1)[:3000])
            return 0
        rc, out, err = run_snippet(code)
        print(out)
        print(err[-3000:], file=sys.stderr)
        return rc
    os.makedirs(os.path.join(VERIF, 'build'), exist_ok=True)
    ctx = Ctx(a.pid, a.tier, seed)
    try:
        mod = importlib.import_module(f'vf.props.{a.pid}')
        if ctx.ensure_static():
            ctx.gate()
            mod.run(ctx)
            if a.tier == 'thorough' and getattr(mod, 'COQCHK', None) and not any(not o['ok'] for o in ctx.obligations):
                for m_ in ([mod.COQCHK] if isinstance(mod.COQCHK, str) else list(mod.COQCHK)):
                    ctx.coqchk(m_)
    except Exception as ex:
        ctx.obligation('harness-internal-error', False, 'harness', traceback.format_exc()[-2000:])
    return ctx.finish()


if __name__ == '__main__':
    sys.exit(main())
