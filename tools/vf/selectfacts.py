"""C05 — source-derived facts and shape-checked translations (regenerated on every run).

  Gen_classtree.v : the class tree below copulas.univariate.base.Univariate (creation order = the order in
                    which copulas/univariate/__init__.py imports the modules), with the PARAMETRIC / BOUNDED
                    tags as seen by attribute lookup (own or inherited) and `ABC in cls.__bases__`.
  Gen_select.v    : select_univariate, Univariate.fit / __init__ / _select_candidates, utils.get_instance
  Gen_gausscols.v : GaussianMultivariate._get_distribution_for_column / _fit_column /
                    _fit_with_fallback_distribution / _fit_columns

Every translator checks the exact statement shape of the function and raises Unsupported otherwise
(fail-closed); the few places where the source may vary without leaving the fragment (comparison operator and
initial value of the argmin loop, the guards of _select_candidates, names of the default / fallback classes)
are carried into the generated text, so Props/C05.v has to re-prove the equality with Model.Select.
"""
import ast
from . import srcnorm as _srcnorm
import os
from fractions import Fraction

from .core import REPO


class Unsupported(Exception):
    pass


UNI_DIR = os.path.join(REPO, 'copulas', 'univariate')
PARAM_MEMBERS = ['NON_PARAMETRIC', 'PARAMETRIC']
BOUND_MEMBERS = ['UNBOUNDED', 'SEMI_BOUNDED', 'BOUNDED']


def _parse(path):
    return _srcnorm.parse_file(path)


def _body(fn):
    """statements of a function without the docstring"""
    b = list(fn.body)
    if b and isinstance(b[0], ast.Expr) and isinstance(b[0].value, ast.Constant) and isinstance(b[0].value.value, str):
        b = b[1:]
    return b


def _src(stmts):
    return [ast.unparse(s) for s in stmts]


def _find_class(tree, name):
    for s in tree.body:
        if isinstance(s, ast.ClassDef) and s.name == name:
            return s
    raise Unsupported(f'class {name} not found at module level')


def _find_fn(container, name):
    hits = [s for s in container.body if isinstance(s, (ast.FunctionDef, ast.AsyncFunctionDef)) and s.name == name]
    if len(hits) != 1 or not isinstance(hits[0], ast.FunctionDef):
        raise Unsupported(f'function {name}: expected exactly one plain def, found {len(hits)}')
    return hits[0]


def _argnames(fn):
    a = fn.args
    if a.vararg or a.kwarg or a.kwonlyargs or a.posonlyargs:
        raise Unsupported(f'{fn.name}: unexpected signature')
    return [x.arg for x in a.args]


def _imports(tree):
    """name -> 'module.attr' for module-level `from m import a [as b]`; name -> module for `import m [as b]`"""
    out = {}
    for s in tree.body:
        if isinstance(s, ast.ImportFrom):
            for al in s.names:
                out[al.asname or al.name] = f'{"." * s.level}{s.module or ""}.{al.name}'
        elif isinstance(s, ast.Import):
            for al in s.names:
                out[al.asname or al.name.split('.')[0]] = al.name
    return out


def _no_rebinding(tree, names, where):
    """fail-closed: none of `names` is re-bound at module level by an assignment / def / class"""
    for s in tree.body:
        bound = []
        if isinstance(s, (ast.FunctionDef, ast.ClassDef)):
            bound = [s.name]
        elif isinstance(s, ast.Assign):
            bound = [t.id for t in s.targets if isinstance(t, ast.Name)]
        elif isinstance(s, (ast.AnnAssign, ast.AugAssign)) and isinstance(s.target, ast.Name):
            bound = [s.target.id]
        for b in bound:
            if b in names:
                raise Unsupported(f'{where}: module-level name {b} is re-bound')


# ------------------------------------------------------------------ class tree
def class_tree():
    """Returns dict(root=..., classes={name: info}, order=[names in creation order], enums=...).
    info = dict(name, module, parent, abc, param, bound, own_param, own_bound, children=[...])"""
    classes, order, loaded = {}, [], []
    enums = {}

    def modname_of(st, current):
        if isinstance(st, ast.ImportFrom):
            if st.level == 0:
                mod = st.module or ''
            elif st.level == 1:
                mod = 'copulas.univariate' + ('.' + st.module if st.module else '')
            else:
                return []
            if mod == 'copulas.univariate':
                # from copulas.univariate import X: a submodule or a name of the (partially initialised) package
                return [a.name for a in st.names if os.path.exists(os.path.join(UNI_DIR, a.name + '.py'))] + ['__init__']
            if mod.startswith('copulas.univariate.'):
                rest = mod.split('.')[2:]
                if len(rest) != 1:
                    raise Unsupported(f'{current}: import of nested module {mod}')
                return ['__init__', rest[0]]
            return []
        if isinstance(st, ast.Import):
            out = []
            for a in st.names:
                if a.name == 'copulas.univariate' or a.name.startswith('copulas.univariate.'):
                    rest = a.name.split('.')[2:]
                    if len(rest) > 1:
                        raise Unsupported(f'{current}: import of nested module {a.name}')
                    out += ['__init__'] + rest
            return out
        return []

    def load(mod):
        if mod in loaded:
            return
        loaded.append(mod)
        path = os.path.join(UNI_DIR, mod + '.py')
        if not os.path.exists(path):
            raise Unsupported(f'module copulas.univariate.{mod} not found')
        tree = _parse(path)
        imps = _imports(tree)
        top_classes = {id(s) for s in tree.body if isinstance(s, ast.ClassDef)}
        for n in ast.walk(tree):
            if isinstance(n, ast.ClassDef) and id(n) not in top_classes:
                raise Unsupported(f'{mod}: class {n.name} is not defined at module level')
        for st in tree.body:
            for m in modname_of(st, mod):
                load(m)
            if not isinstance(st, ast.ClassDef):
                continue
            if st.decorator_list or st.keywords:
                raise Unsupported(f'{mod}.{st.name}: class decorators / metaclass keywords')
            bases = []
            for b in st.bases:
                if isinstance(b, ast.Name):
                    bases.append(b.id)
                else:
                    raise Unsupported(f'{mod}.{st.name}: base {ast.unparse(b)} is not a plain name')
            if st.name in classes or st.name in enums:
                raise Unsupported(f'class {st.name} defined twice')
            if 'Enum' in bases:
                if bases != ['Enum'] or imps.get('Enum') != 'enum.Enum':
                    raise Unsupported(f'{st.name}: unexpected Enum bases')
                members = []
                for s in _body(st):
                    if isinstance(s, ast.Assign) and len(s.targets) == 1 and isinstance(s.targets[0], ast.Name) \
                            and isinstance(s.value, ast.Constant):
                        members.append((s.targets[0].id, s.value.value))
                    else:
                        raise Unsupported(f'enum {st.name}: member {ast.unparse(s)}')
                enums[st.name] = members
                continue
            tree_parents = [b for b in bases if b in classes]
            is_root = (st.name == 'Univariate' and mod == 'base')
            if not tree_parents and not is_root:
                continue        # unrelated class
            for b in bases:
                if b in classes:
                    # the name must denote the registered class: defined earlier in this module or imported from its module
                    src = imps.get(b)
                    if not (classes[b]['module'] == mod or src == f'copulas.univariate.{classes[b]["module"]}.{b}'
                            or src == f'.{classes[b]["module"]}.{b}' or src == f'copulas.univariate.{b}'):
                        raise Unsupported(f'{mod}.{st.name}: base {b} does not resolve to copulas.univariate.{classes[b]["module"]}.{b}')
                elif b == 'ABC':
                    if imps.get('ABC') != 'abc.ABC':
                        raise Unsupported(f'{mod}.{st.name}: ABC is not abc.ABC')
                elif b != 'object':
                    raise Unsupported(f'{mod}.{st.name}: unexpected base {b}')
            if is_root and tree_parents:
                raise Unsupported('Univariate derives from a tree class')
            if len(tree_parents) > 1:
                raise Unsupported(f'{st.name}: several Univariate parents {tree_parents}')
            own = {}
            for s in st.body:
                tg = []
                if isinstance(s, ast.Assign):
                    tg = [t for t in s.targets]
                elif isinstance(s, (ast.AnnAssign, ast.AugAssign)):
                    tg = [s.target]
                for t in tg:
                    for nn in ast.walk(t):
                        if isinstance(nn, ast.Name) and nn.id in ('PARAMETRIC', 'BOUNDED'):
                            if not (isinstance(s, ast.Assign) and len(s.targets) == 1 and isinstance(t, ast.Name)):
                                raise Unsupported(f'{st.name}: tag assignment {ast.unparse(s)}')
                            v = s.value
                            en = {'PARAMETRIC': 'ParametricType', 'BOUNDED': 'BoundedType'}[t.id]
                            if not (isinstance(v, ast.Attribute) and isinstance(v.value, ast.Name) and v.value.id == en):
                                raise Unsupported(f'{st.name}.{t.id} = {ast.unparse(v)}: not a member of {en}')
                            if imps.get(en) not in (f'copulas.univariate.base.{en}', f'.base.{en}', f'copulas.univariate.{en}') \
                                    and not (mod == 'base' and en in enums):
                                raise Unsupported(f'{mod}: {en} is not copulas.univariate.base.{en}')
                            if t.id in own:
                                raise Unsupported(f'{st.name}.{t.id} assigned twice')
                            own[t.id] = v.attr
                if isinstance(s, ast.FunctionDef) and s.name in ('_select_candidates', '__init_subclass__', '__subclasses__',
                                                                 '__getattribute__', '__class_getitem__') and not is_root:
                    raise Unsupported(f'{st.name} overrides {s.name}')
            parent = tree_parents[0] if tree_parents else None
            info = {'name': st.name, 'module': mod, 'parent': parent, 'abc': 'ABC' in bases,
                    'own_param': own.get('PARAMETRIC'), 'own_bound': own.get('BOUNDED'), 'children': []}
            info['param'] = own.get('PARAMETRIC') or (classes[parent]['param'] if parent else None)
            info['bound'] = own.get('BOUNDED') or (classes[parent]['bound'] if parent else None)
            if info['param'] is None or info['bound'] is None:
                raise Unsupported(f'{st.name}: no PARAMETRIC/BOUNDED tag')
            classes[st.name] = info
            order.append(st.name)
            if parent:
                classes[parent]['children'].append(st.name)

    load('__init__')
    for f in sorted(os.listdir(UNI_DIR)):
        if f.endswith('.py') and f[:-3] not in loaded:
            raise Unsupported(f'copulas/univariate/{f} is never imported by the package __init__: its classes are not accounted for')
    if 'Univariate' not in classes:
        raise Unsupported('root class Univariate not found')
    if [m for m, _ in enums.get('ParametricType', [])] != PARAM_MEMBERS or len({v for _, v in enums['ParametricType']}) != 2:
        raise Unsupported(f'ParametricType members {enums.get("ParametricType")}')
    if [m for m, _ in enums.get('BoundedType', [])] != BOUND_MEMBERS or len({v for _, v in enums['BoundedType']}) != 3:
        raise Unsupported(f'BoundedType members {enums.get("BoundedType")}')
    for c in classes.values():
        if c['param'] not in PARAM_MEMBERS or c['bound'] not in BOUND_MEMBERS:
            raise Unsupported(f'{c["name"]}: unknown tag {c["param"]}/{c["bound"]}')
    # nothing else in the package may touch the tags, subclass the tree, or redefine the walk
    names = set(classes)
    for dp, dn, fn in os.walk(os.path.join(REPO, 'copulas')):
        for f in sorted(fn):
            if not f.endswith('.py'):
                continue
            p = os.path.join(dp, f)
            tree = _parse(p)
            inside = os.path.samefile(dp, UNI_DIR)
            for n in ast.walk(tree):
                if isinstance(n, ast.Attribute) and n.attr in ('PARAMETRIC', 'BOUNDED') and isinstance(n.ctx, (ast.Store, ast.Del)):
                    raise Unsupported(f'{p}: assignment to attribute .{n.attr}')
                if isinstance(n, ast.Call) and isinstance(n.func, ast.Name) and n.func.id in ('setattr', 'delattr') and \
                        any(isinstance(a, ast.Constant) and a.value in ('PARAMETRIC', 'BOUNDED', '_select_candidates') for a in n.args):
                    raise Unsupported(f'{p}: setattr on a tag')
                if isinstance(n, ast.ClassDef) and not inside:
                    for b in n.bases:
                        bn = b.id if isinstance(b, ast.Name) else (b.attr if isinstance(b, ast.Attribute) else None)
                        if bn in names:
                            raise Unsupported(f'{p}: class {n.name} derives from {bn} outside copulas/univariate')
    return {'root': 'Univariate', 'classes': classes, 'order': order, 'enums': enums}


def cstr(s):
    return '"' + s.replace('"', '""') + '"'


def tree_to_coq(ct, name_fn=cstr, indent=2):
    cl = ct['classes']

    def node(n, d):
        c = cl[n]
        pad = ' ' * d
        subs = (';\n').join(node(k, d + 4) for k in c['children'])
        inner = f'\n{subs}\n{pad}  ' if subs else ''
        return (f'{pad}CNode (Build_class_info {name_fn(n)} {c["param"]} {c["bound"]} {"true" if c["abc"] else "false"})'
                f' [{inner}]')
    return node(ct['root'], indent)


def gen_classtree_coq(ct):
    cl = ct['classes']
    lines = ['(* GENERATED by tools/vf/selectfacts.py from the AST of copulas/univariate/*.py -- regenerated on every run *)',
             'From Coq Require Import List String Bool.', 'From Cop Require Import Model.Select.',
             'Import ListNotations.', 'Open Scope string_scope.', '',
             '(* cls.__subclasses__() order = class creation order = import order of copulas/univariate/__init__.py *)',
             'Definition gen_tree : ctree string :=', tree_to_coq(ct) + '.', '',
             '(* class name -> module (qualified name = module ++ "." ++ name) *)',
             'Definition gen_modules : list (string * string) := [',
             ';\n'.join(f'  ({cstr(n)}, {cstr("copulas.univariate." + cl[n]["module"])})' for n in ct['order']), '].', '',
             '(* which classes assign the tags in their own body (the others inherit) *)',
             'Definition gen_own_tags : list (string * bool * bool) := [',
             ';\n'.join(f'  ({cstr(n)}, {"true" if cl[n]["own_param"] else "false"}, {"true" if cl[n]["own_bound"] else "false"})'
                        for n in ct['order']), '].']
    return '\n'.join(lines) + '\n'


def runtime_tree():
    """the same facts read from the imported package (validates the extractor)"""
    from abc import ABC
    from copulas.univariate.base import Univariate

    def walk(c):
        return (c.__name__, c.PARAMETRIC.name, c.BOUNDED.name, ABC in c.__bases__, c.__module__,
                [walk(s) for s in c.__subclasses__() if s.__module__.startswith('copulas.')])
    return walk(Univariate)


def ast_tree_as_tuple(ct):
    cl = ct['classes']

    def walk(n):
        c = cl[n]
        return (n, c['param'], c['bound'], c['abc'], 'copulas.univariate.' + c['module'], [walk(k) for k in c['children']])
    return walk(ct['root'])


# ------------------------------------------------------------------ select_univariate & co
def qlit(v):
    f = Fraction(v)
    return f'({f.numerator} # {f.denominator})' if f >= 0 else f'(-({-f.numerator} # {f.denominator}))'


def _is_np_inf(e):
    return isinstance(e, ast.Attribute) and isinstance(e.value, ast.Name) and e.value.id in ('np', 'numpy') and e.attr == 'inf'


def _ext_const(e):
    """option-Q denotation of the initial best_ks: np.inf -> None, finite literal -> Some q"""
    if _is_np_inf(e) or ast.unparse(e) in ("float('inf')", 'math.inf'):
        return 'None'
    if isinstance(e, ast.Constant) and isinstance(e.value, (int, float)) and not isinstance(e.value, bool) and \
            e.value == e.value and abs(e.value) != float('inf'):
        return f'(Some {qlit(e.value)})'
    if isinstance(e, ast.UnaryOp) and isinstance(e.op, ast.USub) and isinstance(e.operand, ast.Constant) and \
            isinstance(e.operand.value, (int, float)):
        return f'(Some {qlit(-e.operand.value)})'
    raise Unsupported(f'initial best_ks {ast.unparse(e)} (supported: np.inf or a finite literal)')


def _cmp(test, new, best):
    """`ks OP best_ks` (either orientation) -> function name applied as f new best"""
    if not (isinstance(test, ast.Compare) and len(test.ops) == 1 and len(test.comparators) == 1):
        raise Unsupported('selection test ' + ast.unparse(test))
    l, r, op = test.left, test.comparators[0], test.ops[0]
    if not (isinstance(l, ast.Name) and isinstance(r, ast.Name) and {l.id, r.id} == {new, best}):
        raise Unsupported('selection test ' + ast.unparse(test))
    tab = {ast.Lt: ('ext_lt', False), ast.LtE: ('ext_le', False), ast.Gt: ('ext_lt', True), ast.GtE: ('ext_le', True)}
    if type(op) not in tab:
        raise Unsupported('selection test operator ' + ast.unparse(test))
    f, swap = tab[type(op)]
    new_left = (l.id == new)
    if swap:
        new_left = not new_left
    return (lambda a, b: f'{f} {a} {b}') if new_left else (lambda a, b: f'{f} {b} {a}')


EXT_LIB = '''(* denotation of float comparisons on [option Q] where None is +inf (NaN never reaches a comparison) *)
Definition ext_lt (a b : option Q) : bool :=
  match a, b with
  | Some x, Some y => Qltb x y | Some _, None => true | None, _ => false
  end.
Definition ext_le (a b : option Q) : bool :=
  match a, b with
  | Some x, Some y => Qle_bool x y | _, None => true | None, Some _ => false
  end.
'''


def translate_select_univariate():
    tree = _parse(os.path.join(UNI_DIR, 'selection.py'))
    imps = _imports(tree)
    if imps.get('kstest') != 'scipy.stats.kstest':
        raise Unsupported(f'selection.kstest is {imps.get("kstest")}, expected scipy.stats.kstest')
    if imps.get('get_instance') != 'copulas.utils.get_instance':
        raise Unsupported(f'selection.get_instance is {imps.get("get_instance")}')
    if imps.get('np') != 'numpy':
        raise Unsupported('selection.np is not numpy')
    _no_rebinding(tree, {'kstest', 'get_instance', 'np'}, 'selection.py')
    fn = _find_fn(tree, 'select_univariate')
    if fn.decorator_list or _argnames(fn) != ['X', 'candidates'] or fn.args.defaults:
        raise Unsupported('select_univariate signature/decorators')
    b = _body(fn)
    if len(b) != 4:
        raise Unsupported('select_univariate: unexpected statement sequence: ' + ' ;; '.join(s[:50] for s in _src(b)))
    s0, s1, loop, ret = b
    if not (isinstance(s0, ast.Assign) and len(s0.targets) == 1 and isinstance(s0.targets[0], ast.Name)):
        raise Unsupported('select_univariate: first statement ' + ast.unparse(s0))
    best = s0.targets[0].id
    init = _ext_const(s0.value)
    if not (isinstance(s1, ast.Assign) and len(s1.targets) == 1 and isinstance(s1.targets[0], ast.Name)
            and isinstance(s1.value, ast.Constant) and s1.value.value is None):
        raise Unsupported('select_univariate: second statement ' + ast.unparse(s1))
    bm = s1.targets[0].id
    if bm == best:
        raise Unsupported('select_univariate: same variable for statistic and model')
    if not (isinstance(loop, ast.For) and isinstance(loop.target, ast.Name) and ast.unparse(loop.iter) == 'candidates'
            and not loop.orelse and len(loop.body) == 1 and isinstance(loop.body[0], ast.Try)):
        raise Unsupported('select_univariate: loop shape')
    mv = loop.target.id
    tr = loop.body[0]
    if tr.orelse or tr.finalbody or len(tr.handlers) != 1:
        raise Unsupported('select_univariate: try statement has else/finally or several handlers')
    h = tr.handlers[0]
    if not (isinstance(h.type, ast.Name) and h.type.id == 'Exception' and len(h.body) == 1 and isinstance(h.body[0], ast.Pass)):
        raise Unsupported('select_univariate: handler is not `except Exception: pass`')
    tb = tr.body
    want = [f'instance = get_instance({mv})', 'instance.fit(X)', 'ks, _ = kstest(X, instance.cdf)']
    if len(tb) != 4 or _src(tb[:3]) != want:
        raise Unsupported('select_univariate: try body: ' + ' ;; '.join(s[:60] for s in _src(tb)))
    iff = tb[3]
    if not (isinstance(iff, ast.If) and not iff.orelse and sorted(_src(iff.body)) == sorted([f'{best} = ks', f'{bm} = {mv}'])):
        raise Unsupported('select_univariate: update statement ' + ast.unparse(iff)[:120])
    cmpf = _cmp(iff.test, 'ks', best)
    if ast.unparse(ret) != f'return get_instance({bm})':
        raise Unsupported('select_univariate: return statement ' + ast.unparse(ret))
    txt = f'''
(* copulas/univariate/selection.py: select_univariate(X, candidates)
   try_fit4 model = outcome of `instance = get_instance(model); instance.fit(X); ks, _ = kstest(X, instance.cdf)` *)
Section GenSelectUnivariate.
  Variable cand : Type.
  Variable try_fit4 : cand -> outcome.
  Definition gen_sel_init : sel_state cand := ({init}, None).       (* {ast.unparse(s0)}; {ast.unparse(s1)} *)
  Definition gen_sel_step (st : sel_state cand) ({mv} : cand) : sel_state cand :=
    match try_fit4 {mv} with
    | Raised => st                                                   (* except Exception: pass *)
    | KsNaN => st                                                    (* a comparison with nan is False *)
    | KsInf => if {cmpf('None', '(fst st)')} then (None, Some {mv}) else st
    | Ks ks => if {cmpf('(Some ks)', '(fst st)')} then (Some ks, Some {mv}) else st      (* {ast.unparse(iff.test)} *)
    end.
  Definition gen_select_univariate (candidates : list cand) : pyobj cand :=
    get_instance_opt cand (snd (fold_left gen_sel_step candidates gen_sel_init)).     (* {ast.unparse(ret)} *)
End GenSelectUnivariate.
'''
    return txt


def translate_univariate_class():
    """Univariate.__init__ (candidates), _select_candidates, fit"""
    tree = _parse(os.path.join(UNI_DIR, 'base.py'))
    imps = _imports(tree)
    if imps.get('select_univariate') != 'copulas.univariate.selection.select_univariate':
        raise Unsupported(f'base.select_univariate is {imps.get("select_univariate")}')
    if imps.get('ABC') != 'abc.ABC':
        raise Unsupported('base.ABC is not abc.ABC')
    _no_rebinding(tree, {'select_univariate', 'ABC', 'get_instance'}, 'base.py')
    cls = _find_class(tree, 'Univariate')
    # ---- __init__
    ini = _find_fn(cls, '__init__')
    args = _argnames(ini)
    if args[:4] != ['self', 'candidates', 'parametric', 'bounded'] or \
            [ast.unparse(d) for d in ini.args.defaults[:3]] != ['None', 'None', 'None'] or len(ini.args.defaults) != len(args) - 1:
        raise Unsupported('Univariate.__init__ signature')
    if [ast.unparse(d) for d in ini.decorator_list] != ['store_args']:
        raise Unsupported('Univariate.__init__ decorators')
    cand_assign = [s for s in _body(ini) if 'candidates' in ast.unparse(s)]
    if _src(cand_assign) != ['self.candidates = candidates or self._select_candidates(parametric, bounded)']:
        raise Unsupported('Univariate.__init__: candidates assignment: ' + ' ;; '.join(_src(cand_assign)))
    for n in ast.walk(cls):
        if isinstance(n, ast.Attribute) and n.attr == 'candidates' and isinstance(n.ctx, ast.Store) and n is not cand_assign[0].targets[0]:
            raise Unsupported('Univariate: self.candidates assigned in more than one place')
    # ---- _select_candidates
    sc = _find_fn(cls, '_select_candidates')
    if [ast.unparse(d) for d in sc.decorator_list] != ['classmethod'] or _argnames(sc) != ['cls', 'parametric', 'bounded'] or \
            [ast.unparse(d) for d in sc.args.defaults] != ['None', 'None']:
        raise Unsupported('_select_candidates signature/decorators')
    b = _body(sc)
    if len(b) != 3 or _src([b[0], b[2]]) != ['candidates = []', 'return candidates'] or not isinstance(b[1], ast.For):
        raise Unsupported('_select_candidates: statement sequence')
    loop = b[1]
    if not (ast.unparse(loop.target) == 'subclass' and ast.unparse(loop.iter) == 'cls.__subclasses__()' and not loop.orelse):
        raise Unsupported('_select_candidates: loop header ' + ast.unparse(loop.target) + ' in ' + ast.unparse(loop.iter))
    lb = loop.body
    if len(lb) < 2 or ast.unparse(lb[0]) != 'candidates.extend(subclass._select_candidates(parametric, bounded))' or \
            ast.unparse(lb[-1]) != 'candidates.append(subclass)':
        raise Unsupported('_select_candidates: loop body must be extend(recursive call) ... append(subclass)')
    guards = []
    for g in lb[1:-1]:
        if not (isinstance(g, ast.If) and not g.orelse and len(g.body) == 1 and isinstance(g.body[0], ast.Continue)):
            raise Unsupported('_select_candidates: guard ' + ast.unparse(g)[:80])
        guards.append(_guard(g.test))
    skip = ' || '.join(guards) if guards else 'false'
    # ---- fit
    fit = _find_fn(cls, 'fit')
    if fit.decorator_list or _argnames(fit) != ['self', 'X']:
        raise Unsupported('Univariate.fit signature/decorators')
    fb = _body(fit)
    want_tail = ['self._instance = select_univariate(selection_sample, self.candidates)', 'self._instance.fit(X)', 'self.fitted = True']
    if len(fb) != 4 or _src(fb[1:]) != want_tail or not isinstance(fb[0], ast.If):
        raise Unsupported('Univariate.fit: statement sequence: ' + ' ;; '.join(s[:60] for s in _src(fb)))
    sub = fb[0]
    if ast.unparse(sub.test) != 'self.selection_sample_size and self.selection_sample_size < len(X)' or \
            _src(sub.body) != ['selection_sample = np.random.choice(X, size=self.selection_sample_size)'] or \
            _src(sub.orelse) != ['selection_sample = X']:
        raise Unsupported('Univariate.fit: selection sample: ' + ast.unparse(sub)[:200])
    txt = f'''
(* copulas/univariate/base.py: Univariate._select_candidates(cls, parametric, bounded) over the class tree;
   guards translated from the `if ...: continue` statements, in order *)
Definition gen_skip (parametric : option parametric_type) (bounded : option bounded_type) (subclass : @class_info string) : bool :=
  {skip}.
Fixpoint gen_select_candidates (parametric : option parametric_type) (bounded : option bounded_type)
         (cls : ctree string) : list string :=
  match cls with
  | CNode _ subclasses =>
      flat_map (fun subclass =>
                  gen_select_candidates parametric bounded subclass ++                (* candidates.extend(subclass._select_candidates(...)) *)
                  (match subclass with
                   | CNode info _ => if gen_skip parametric bounded info then [] else [cname info]   (* continue | candidates.append(subclass) *)
                   end))
               subclasses
  end.

(* Univariate.__init__: {_src(cand_assign)[0]}   (a list is falsy iff it is empty) *)
Definition gen_init_candidates (candidates : option (list string))
           (parametric : option parametric_type) (bounded : option bounded_type) (cls : ctree string) : list string :=
  match candidates with
  | Some (c :: cs) => c :: cs
  | _ => gen_select_candidates parametric bounded cls
  end.

(* Univariate.fit: _instance = select_univariate(selection_sample, self.candidates); _instance.fit(X); fitted = True
   try_fit4 refers to the selection sample, refit to the full data *)
Definition gen_univariate_fit (cand : Type) (try_fit4 : cand -> outcome) (refit : cand -> bool)
           (candidates : list cand) : fit_result cand :=
  match gen_select_univariate cand try_fit4 candidates with
  | PyNone => FitErr AttributeError_NoneType_fit        (* None.fit(X) *)
  | FreshInstance m => if refit m then FitOk m else FitErr RefitRaised
  end.
'''
    return txt


def _guard(test):
    s = ast.unparse(test)
    if s == 'ABC in subclass.__bases__':
        return 'cabc subclass'
    for var, attr, eqb, proj in (('parametric', 'PARAMETRIC', 'parametric_eqb', 'cparam'), ('bounded', 'BOUNDED', 'bounded_eqb', 'cbound')):
        if s == f'{var} is not None and subclass.{attr} != {var}':
            return f'(match {var} with Some f => negb ({eqb} ({proj} subclass) f) | None => false end)'
        if s == f'{var} is not None and subclass.{attr} == {var}':
            return f'(match {var} with Some f => {eqb} ({proj} subclass) f | None => false end)'
    raise Unsupported('_select_candidates: guard condition ' + s)


def translate_get_instance():
    tree = _parse(os.path.join(REPO, 'copulas', 'utils.py'))
    imps = _imports(tree)
    if imps.get('importlib') != 'importlib':
        raise Unsupported('utils.importlib')
    fn = _find_fn(tree, 'get_instance')
    if fn.decorator_list or [a.arg for a in fn.args.args] != ['obj'] or fn.args.vararg or fn.args.kwonlyargs or \
            not fn.args.kwarg or fn.args.kwarg.arg != 'kwargs':
        raise Unsupported('get_instance signature')
    want = '''instance = None
if isinstance(obj, str):
    package, name = obj.rsplit('.', 1)
    instance = getattr(importlib.import_module(package), name)(**kwargs)
elif isinstance(obj, type):
    instance = obj(**kwargs)
elif kwargs:
    instance = obj.__class__(**kwargs)
else:
    args = getattr(obj, '__args__', ())
    kwargs = getattr(obj, '__kwargs__', {})
    instance = obj.__class__(*args, **kwargs)
return instance'''
    got = '\n'.join(_src(_body(fn)))
    if got != want:
        raise Unsupported('get_instance: body differs from the supported shape:\n' + got)
    # store_args must keep the constructor arguments under exactly these attribute names
    sa = _find_fn(tree, 'store_args')
    s = ast.unparse(sa)
    for needle in ('args_copy = deepcopy(args)', 'kwargs_copy = deepcopy(kwargs)', '__init__(self, *args, **kwargs)',
                   'self.__args__ = args_copy', 'self.__kwargs__ = kwargs_copy'):
        if needle not in s:
            raise Unsupported('store_args: missing `' + needle + '`')
    return '''
(* copulas/utils.py: get_instance(obj) without keyword arguments *)
Section GenGetInstance.
  Variables qualname cls args : Type.
  Variable import_class : qualname -> option cls.      (* getattr(importlib.import_module(package), name); None = it raised *)
  Definition gen_get_instance (obj : pyarg qualname cls args) : option (pyinst cls args) :=
    match obj with
    | ArgStr _ _ _ q => match import_class q with Some c => Some (Inst _ _ c None) | None => None end
    | ArgType _ _ _ c => Some (Inst _ _ c None)                  (* obj( **{}) *)
    | ArgInstance _ _ _ c a => Some (Inst _ _ c (Some a))        (* obj.__class__( *obj.__args__, **obj.__kwargs__) *)
    | ArgNone => Some InstNone                                  (* None.__class__() is None *)
    end.
End GenGetInstance.
'''


def gen_select_coq():
    parts = ['(* GENERATED by tools/vf/selectfacts.py from copulas/univariate/selection.py, base.py and copulas/utils.py *)',
             'From Coq Require Import List Bool QArith ZArith String.', 'From Cop Require Import Model.Select.',
             'Import ListNotations.', '', EXT_LIB,
             translate_select_univariate(), translate_univariate_class(), translate_get_instance()]
    return '\n'.join(parts)


# ------------------------------------------------------------------ GaussianMultivariate columns
def translate_gaussian_columns(ct):
    path = os.path.join(REPO, 'copulas', 'multivariate', 'gaussian.py')
    tree = _parse(path)
    imps = _imports(tree)
    if imps.get('get_instance') != 'copulas.utils.get_instance':
        raise Unsupported('gaussian.get_instance is ' + str(imps.get('get_instance')))
    for n in ('GaussianUnivariate', 'Univariate'):
        if imps.get(n) != f'copulas.univariate.{n}':
            raise Unsupported(f'gaussian.{n} is {imps.get(n)}')
    _no_rebinding(tree, {'get_instance', 'GaussianUnivariate', 'Univariate'}, 'gaussian.py')
    dd = [s for s in tree.body if isinstance(s, ast.Assign) and any(ast.unparse(t) == 'DEFAULT_DISTRIBUTION' for t in s.targets)]
    if len(dd) != 1 or not isinstance(dd[0].value, ast.Name) or len(dd[0].targets) != 1:
        raise Unsupported('DEFAULT_DISTRIBUTION assignment')
    for n in ast.walk(tree):
        if isinstance(n, ast.Name) and n.id == 'DEFAULT_DISTRIBUTION' and isinstance(n.ctx, ast.Store) and n is not dd[0].targets[0]:
            raise Unsupported('DEFAULT_DISTRIBUTION re-assigned')
        if isinstance(n, ast.Global):
            raise Unsupported('global statement in gaussian.py')
    default_cls = dd[0].value.id
    if default_cls not in ct['classes'] or imps.get(default_cls) != f'copulas.univariate.{default_cls}':
        raise Unsupported(f'DEFAULT_DISTRIBUTION = {default_cls}: not a class of copulas.univariate')
    cls = _find_class(tree, 'GaussianMultivariate')
    ini = _find_fn(cls, '__init__')
    if _argnames(ini) != ['self', 'distribution', 'random_state'] or [ast.unparse(d) for d in ini.args.defaults] != ['DEFAULT_DISTRIBUTION', 'None'] \
            or 'self.distribution = distribution' not in _src(_body(ini)):
        raise Unsupported('GaussianMultivariate.__init__ signature / distribution attribute')
    for n in ast.walk(cls):
        if isinstance(n, ast.Attribute) and n.attr == 'distribution' and isinstance(n.ctx, ast.Store):
            owner = next(f for f in cls.body if isinstance(f, ast.FunctionDef) and any(m is n for m in ast.walk(f)))
            if owner.name != '__init__':
                raise Unsupported(f'self.distribution assigned in {owner.name}')
    # ---- _get_distribution_for_column
    g = _find_fn(cls, '_get_distribution_for_column')
    if g.decorator_list or _argnames(g) != ['self', 'column_name']:
        raise Unsupported('_get_distribution_for_column signature')
    gb = _body(g)
    if len(gb) != 2 or not isinstance(gb[0], ast.If) or gb[0].orelse or ast.unparse(gb[0].test) != 'isinstance(self.distribution, dict)' \
            or len(gb[0].body) != 1 or ast.unparse(gb[1]) != 'return self.distribution':
        raise Unsupported('_get_distribution_for_column: shape: ' + ' ;; '.join(_src(gb)))
    r = gb[0].body[0]
    if not (isinstance(r, ast.Return) and isinstance(r.value, ast.Call) and ast.unparse(r.value.func) == 'self.distribution.get'
            and len(r.value.args) == 2 and not r.value.keywords and ast.unparse(r.value.args[0]) == 'column_name'
            and isinstance(r.value.args[1], ast.Name)):
        raise Unsupported('_get_distribution_for_column: dict lookup ' + ast.unparse(r))
    dflt = r.value.args[1].id
    if dflt == 'DEFAULT_DISTRIBUTION':
        dflt_cls = default_cls
    elif dflt in ct['classes'] and imps.get(dflt) == f'copulas.univariate.{dflt}':
        dflt_cls = dflt
    else:
        raise Unsupported(f'_get_distribution_for_column: default {dflt}')
    # ---- _fit_column
    fc = _find_fn(cls, '_fit_column')
    if fc.decorator_list or _argnames(fc) != ['self', 'column', 'distribution', 'column_name']:
        raise Unsupported('_fit_column signature')
    fb = _body(fc)
    if len(fb) != 3 or ast.unparse(fb[0]) != 'univariate = get_instance(distribution)' or not isinstance(fb[1], ast.Try) or \
            ast.unparse(fb[2]) != 'return univariate':
        raise Unsupported('_fit_column: shape: ' + ' ;; '.join(s[:60] for s in _src(fb)))
    tr = fb[1]
    if tr.orelse or tr.finalbody or len(tr.handlers) != 1 or _src(tr.body) != ['univariate.fit(column)']:
        raise Unsupported('_fit_column: try statement')
    h = tr.handlers[0]
    if not (isinstance(h.type, ast.Name) and h.type.id == 'Exception') or len(h.body) != 1 or \
            ast.unparse(h.body[0]) != f'univariate = self._fit_with_fallback_distribution(column, distribution, column_name, {h.name})':
        raise Unsupported('_fit_column: handler ' + ast.unparse(h)[:160])
    # ---- _fit_with_fallback_distribution
    fw = _find_fn(cls, '_fit_with_fallback_distribution')
    if fw.decorator_list or _argnames(fw) != ['self', 'column', 'distribution', 'column_name', 'error']:
        raise Unsupported('_fit_with_fallback_distribution signature')
    wb = []
    for s in _body(fw):
        u = ast.unparse(s)
        if u.startswith('log_message = ') and isinstance(s, ast.Assign) and isinstance(s.value, (ast.JoinedStr, ast.Constant, ast.BinOp)) \
                and not any(isinstance(n, ast.Call) for n in ast.walk(s.value) if not isinstance(n, ast.FormattedValue)):
            continue
        if u.startswith('LOGGER.') and isinstance(s, ast.Expr) and isinstance(s.value, ast.Call) and \
                all(isinstance(a, (ast.Name, ast.Constant)) for a in s.value.args):
            continue
        wb.append(s)
    if len(wb) != 3 or not (isinstance(wb[0], ast.Assign) and ast.unparse(wb[0].targets[0]) == 'univariate' and
                            isinstance(wb[0].value, ast.Call) and isinstance(wb[0].value.func, ast.Name) and
                            not wb[0].value.args and not wb[0].value.keywords) or \
            _src(wb[1:]) != ['univariate.fit(column)', 'return univariate']:
        raise Unsupported('_fit_with_fallback_distribution: shape: ' + ' ;; '.join(s[:60] for s in _src(wb)))
    fallback_cls = wb[0].value.func.id
    if fallback_cls not in ct['classes'] or imps.get(fallback_cls) != f'copulas.univariate.{fallback_cls}':
        raise Unsupported(f'fallback class {fallback_cls} is not a class of copulas.univariate')
    # ---- _fit_columns
    fcs = _find_fn(cls, '_fit_columns')
    if fcs.decorator_list or _argnames(fcs) != ['self', 'X']:
        raise Unsupported('_fit_columns signature')
    cb = _body(fcs)
    if len(cb) != 4 or _src(cb[:2]) != ['columns = []', 'univariates = []'] or ast.unparse(cb[3]) != 'return (columns, univariates)' \
            or not isinstance(cb[2], ast.For):
        raise Unsupported('_fit_columns: shape: ' + ' ;; '.join(s[:60] for s in _src(cb)))
    loop = cb[2]
    if ast.unparse(loop.target) != '(column_name, column)' or ast.unparse(loop.iter) != 'X.items()' or loop.orelse:
        raise Unsupported('_fit_columns: loop header')
    lb = [s for s in loop.body if not (ast.unparse(s).startswith('LOGGER.') and isinstance(s, ast.Expr) and
                                       all(isinstance(a, (ast.Name, ast.Constant)) for a in s.value.args))]
    if _src(lb) != ['distribution = self._get_distribution_for_column(column_name)',
                    'univariate = self._fit_column(column, distribution, column_name)',
                    'columns.append(column_name)', 'univariates.append(univariate)']:
        raise Unsupported('_fit_columns: loop body: ' + ' ;; '.join(s[:60] for s in _src(lb)))
    # ---- fit uses _fit_columns for columns/univariates
    ft = _find_fn(cls, 'fit')
    if [ast.unparse(d) for d in ft.decorator_list] != ['check_valid_values'] or _argnames(ft) != ['self', 'X'] or \
            imps.get('check_valid_values') != 'copulas.utils.check_valid_values':
        raise Unsupported('GaussianMultivariate.fit: signature / decorators (expected @check_valid_values)')
    fs = _src(_body(ft))
    for needle in ('X = self._validate_input(X)', 'columns, univariates = self._fit_columns(X)', 'self.columns = columns',
                   'self.univariates = univariates'):
        if needle not in fs:
            raise Unsupported('GaussianMultivariate.fit: missing `' + needle + '`')
    if not (fs.index('X = self._validate_input(X)') < fs.index('columns, univariates = self._fit_columns(X)')
            < fs.index('self.univariates = univariates')):
        raise Unsupported('GaussianMultivariate.fit: statement order')
    txt = f'''(* GENERATED by tools/vf/selectfacts.py from copulas/multivariate/gaussian.py *)
From Coq Require Import List Bool String.
From Cop Require Import Model.Select.
Import ListNotations.
Open Scope string_scope.

Definition gen_default_distribution_class : string := {cstr(default_cls)}.      (* {ast.unparse(dd[0])} *)
Definition gen_dict_default_class : string := {cstr(dflt_cls)}.                 (* {ast.unparse(r)} *)
Definition gen_fallback_class : string := {cstr(fallback_cls)}.                 (* {ast.unparse(wb[0])} *)

Section GenColumns.
  Variables label dist fitted col : Type.
  Variable label_eqb : label -> label -> bool.
  Variable class_of_name : string -> dist.          (* the class object a module-level name of gaussian.py denotes *)
  Variable instantiable : dist -> bool.             (* get_instance(distribution) returns *)
  Variable fit_dist : dist -> col -> option fitted.   (* a fresh instance's .fit(column); None = raised an Exception *)

  (* _get_distribution_for_column *)
  Definition gen_get_distribution_for_column (distribution : dist_config label dist) (column_name : label) : dist :=
    match distribution with
    | PerColumn entries =>                             (* isinstance(self.distribution, dict) *)
        match assoc label label_eqb column_name entries with
        | Some d => d
        | None => class_of_name gen_dict_default_class
        end
    | Single d => d
    end.

  (* _fit_with_fallback_distribution *)
  Definition gen_fit_with_fallback_distribution (column : col) : col_result fitted :=
    match fit_dist (class_of_name gen_fallback_class) column with
    | Some f => ColOk f true
    | None => ColErr FallbackRaised
    end.

  (* _fit_column: get_instance OUTSIDE the try; fit inside; except Exception -> fallback *)
  Definition gen_fit_column (column : col) (distribution : dist) : col_result fitted :=
    if instantiable distribution then
      match fit_dist distribution column with
      | Some f => ColOk f false
      | None => gen_fit_with_fallback_distribution column
      end
    else ColErr GetInstanceRaised.

  (* _fit_columns *)
  Fixpoint gen_fit_columns_loop (distribution : dist_config label dist) (items : list (label * col))
           (columns : list label) (univariates : list fitted) : (list label * list fitted) + column_error :=
    match items with
    | [] => inl (columns, univariates)
    | (column_name, column) :: rest =>
        match gen_fit_column column (gen_get_distribution_for_column distribution column_name) with
        | ColOk univariate _ => gen_fit_columns_loop distribution rest (columns ++ [column_name]) (univariates ++ [univariate])
        | ColErr e => inr e
        end
    end.
  Definition gen_fit_columns (distribution : dist_config label dist) (items : list (label * col)) :=
    gen_fit_columns_loop distribution items [] [].
End GenColumns.
'''
    return txt, {'default': default_cls, 'dict_default': dflt_cls, 'fallback': fallback_cls}
