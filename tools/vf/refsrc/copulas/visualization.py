"""Visualization utilities for the Copulas library."""

import pandas as pd
import plotly.express as px
import plotly.figure_factory as ff


class PlotConfig:
    """Custom plot settings for visualizations."""

    DATACEBO_DARK = '#000036'
    DATACEBO_GREEN = '#01E0C9'
    BACKGROUND_COLOR = '#F5F5F8'
    FONT_SIZE = 18


def _generate_1d_plot(data, title, labels, colors):
    """Generate a density plot of an array-like structure.

    Args:
        data (array-like structure):
            The data to plot.
        title (str):
            The title of the plot.
        labels (list[str]):
            The labels of the data.
        colors (list[str]):
            The colors of the data.

    Returns:
        plotly.graph_objects._figure.Figure
    """
    fig = ff.create_distplot(
        hist_data=data, group_labels=labels, show_hist=False, show_rug=False, colors=colors
    )

    for i, name in enumerate(labels):
        fig.update_traces(
            x=fig.data[i].x,
            hovertemplate=f'<b>{name}</b><br>Frequency: %{{y}}<extra></extra>',
            selector={'name': name},
            fill='tozeroy',
        )

    fig.update_layout(
        title=title,
        plot_bgcolor=PlotConfig.BACKGROUND_COLOR,
        font={'size': PlotConfig.FONT_SIZE},
        showlegend=True if labels[0] else False,
        xaxis_title='value',
        yaxis_title='frequency',
    )

    return fig


def dist_1d(data, title=None, label=None):
    """Plot the 1 dimensional data.

    Args:
        data (array_like structure):
            The table data.
        title (str):
            The title of the plot.
        label (str):
            The label of the plot.

    Returns:
        plotly.graph_objects._figure.Figure
    """
    if not title:
        title = 'Data'
        if isinstance(data, pd.DataFrame):
            title += f" for column '{data.columns[0]}'"
        elif isinstance(data, pd.Series) and data.name:
            title += f" for column '{data.name}'"

    return _generate_1d_plot(
        data=[data], title=title, labels=[label], colors=[PlotConfig.DATACEBO_DARK]
    )


def compare_1d(real, synth, title=None):
    """Plot the comparison between real and synthetic data.

    Args:
        real (array_like):
            The real data.
        synth (array_like):
            The synthetic data.
        title (str):
            The title of the plot.

    Returns:
        plotly.graph_objects._figure.Figure
    """
    if not title:
        title = 'Real vs. Synthetic Data'
        if isinstance(real, pd.DataFrame):
            title += f" for column '{real.columns[0]}'"
        elif isinstance(real, pd.Series) and real.name:
            title += f" for column '{real.name}'"

    return _generate_1d_plot(
        data=[real, synth],
        title=title,
        labels=['Real', 'Synthetic'],
        colors=[PlotConfig.DATACEBO_DARK, PlotConfig.DATACEBO_GREEN],
    )


def _generate_scatter_2d_plot(data, columns, color_discrete_map, title):
    """Generate a scatter plot for a pair of columns.

    Args:
        data (pandas.DataFrame):
            The data for the desired column pair containing a
            ``Data`` column indicating whether it is real or synthetic.
        columns (list):
            A list of the columns being plotted.
        color_discrete_map (dict):
            A dictionary mapping the values of the ``Data`` column to the colors
            used to plot them.
        title (str):
            The title of the plot.

    Returns:
        plotly.graph_objects._figure.Figure
    """
    if columns:
        columns = list(columns) + ['Data']
    else:
        columns = data.columns

    if len(columns) != 3:  # includes the 'Data' column
        raise ValueError('Only 2 columns can be plotted')

    fig = px.scatter(
        data,
        x=columns[0],
        y=columns[1],
        color='Data',
        color_discrete_map=color_discrete_map,
        symbol='Data',
    )

    fig.update_layout(
        title=title,
        plot_bgcolor=PlotConfig.BACKGROUND_COLOR,
        font={'size': PlotConfig.FONT_SIZE},
        showlegend=False if len(color_discrete_map) == 1 else True,
    )

    return fig


def scatter_2d(data, columns=None, title=None):
    """Plot 2 dimensional data in a scatter plot.

    Args:
        data (pandas.DataFrame):
            The table data.
        columns (list[string]):
            The names of the two columns to plot.
        title (str):
            The title of the plot.

    Returns:
        plotly.graph_objects._figure.Figure
    """
    data = data.copy()
    data['Data'] = 'Real'

    if not title:
        title = 'Data'
        if columns:
            title += f" for columns '{columns[0]}' and '{columns[1]}'"
        elif isinstance(data, pd.DataFrame):
            title += f" for columns '{data.columns[0]}' and '{data.columns[1]}'"

    return _generate_scatter_2d_plot(
        data=data,
        columns=columns,
        color_discrete_map={'Real': PlotConfig.DATACEBO_DARK},
        title=title,
    )


def compare_2d(real, synth, columns=None, title=None):
    """Plot the comparison between real and synthetic data for a given column pair.

    Args:
        real (pandas.DataFrame):
            The real table data.
        synth (pandas.Dataframe):
            The synthetic table data.
        columns (list[string]):
            The names of the two columns to plot.
        title (str):
            The title of the plot.

    Returns:
        plotly.graph_objects._figure.Figure
    """
    real, synth = real.copy(), synth.copy()
    real['Data'] = 'Real'
    synth['Data'] = 'Synthetic'
    data = pd.concat([real, synth], axis=0, ignore_index=True)

    if not title:
        title = 'Real vs. Synthetic Data'
        if columns:
            title += f" for columns '{columns[0]}' and '{columns[1]}'"
        elif isinstance(data, pd.DataFrame):
            title += f" for columns '{data.columns[0]}' and '{data.columns[1]}'"

    return _generate_scatter_2d_plot(
        data=data,
        columns=columns,
        color_discrete_map={
            'Real': PlotConfig.DATACEBO_DARK,
            'Synthetic': PlotConfig.DATACEBO_GREEN,
        },
        title=title,
    )


def _generate_scatter_3d_plot(data, columns, color_discrete_map, title):
    """Generate a scatter plot for column pair plot.

    Args:
        data (pandas.DataFrame):
            The data for the desired three columns containing a
            ``Data`` column that indicates whether it is real or synthetic.
        columns (list):
            A list of the columns being plotted.
        color_discrete_map (dict):
            A dictionary mapping the values of the ``Data`` column to the colors
            used to plot them.
        title (str):
            The title of the plot.

    Returns:
        plotly.graph_objects._figure.Figure
    """
    if columns:
        columns = list(columns) + ['Data']
    else:
        columns = data.columns

    if len(columns) != 4:  # includes the 'Data' column
        raise ValueError('Only 3 columns can be plotted')

    fig = px.scatter_3d(
        data,
        x=columns[0],
        y=columns[1],
        z=columns[2],
        color='Data',
        color_discrete_map=color_discrete_map,
        symbol='Data',
    )

    fig.update_traces(marker={'size': 5})

    fig.update_layout(
        title=title,
        plot_bgcolor=PlotConfig.BACKGROUND_COLOR,
        font={'size': PlotConfig.FONT_SIZE},
        showlegend=False if len(color_discrete_map) == 1 else True,
    )

    return fig


def scatter_3d(data, columns=None, title=None):
    """Plot 3 dimensional data in a scatter plot.

    Args:
        data (pandas.DataFrame):
            The table data. Must have at least 3 columns.
        columns (list[string]):
            The names of the three columns to plot.
        title (str):
            The title of the plot.

    Returns:
        plotly.graph_objects._figure.Figure
    """
    data = data.copy()
    data['Data'] = 'Real'

    if not title:
        title = 'Data'
        if columns:
            title += f" for columns '{columns[0]}', '{columns[1]}' and '{columns[2]}'"
        elif isinstance(data, pd.DataFrame):
            title += (
                f" for columns '{data.columns[0]}', '{data.columns[1]}' and '{data.columns[2]}'"
            )

    return _generate_scatter_3d_plot(
        data=data,
        columns=columns,
        color_discrete_map={'Real': PlotConfig.DATACEBO_DARK},
        title=title,
    )


def compare_3d(real, synth, columns=None, title=None):
    """Plot the comparison between real and synthetic data for a given column triplet.

    Args:
        real (pd.DataFrame):
            The real data.
        synth (pd.DataFrame):
            The synthetic data.
        columns (list):
            The name of the columns to plot.
        title (str):
            The title of the plot.
    """
    real, synth = real.copy(), synth.copy()
    real['Data'] = 'Real'
    synth['Data'] = 'Synthetic'
    data = pd.concat([real, synth], axis=0, ignore_index=True)

    if not title:
        title = 'Real vs. Synthetic Data'
        if columns:
            title += f" for columns '{columns[0]}', '{columns[1]}' and '{columns[2]}'"
        elif isinstance(data, pd.DataFrame):
            title += (
                f" for columns '{data.columns[0]}', '{data.columns[1]}' and '{data.columns[2]}'"
            )

    return _generate_scatter_3d_plot(
        data=data,
        columns=columns,
        color_discrete_map={
            'Real': PlotConfig.DATACEBO_DARK,
            'Synthetic': PlotConfig.DATACEBO_GREEN,
        },
        title=title,
    )
