"""Base Multivariate class."""

import importlib
import pickle

import numpy as np

from copulas.errors import NotFittedError
from copulas.utils import validate_random_state


class Multivariate(object):
    """Abstract class for a multi-variate copula object."""

    fitted = False

    def __init__(self, random_state=None):
        self.random_state = validate_random_state(random_state)

    def fit(self, X):
        """Fit the model to table with values from multiple random variables.

        Arguments:
            X (pandas.DataFrame):
                Values of the random variables.
        """
        raise NotImplementedError

    def probability_density(self, X):
        """Compute the probability density for each point in X.

        Arguments:
            X (pandas.DataFrame):
                Values for which the probability density will be computed.

        Returns:
            numpy.ndarray:
                Probability density values for points in X.

        Raises:
            NotFittedError:
                if the model is not fitted.
        """
        raise NotImplementedError

    def log_probability_density(self, X):
        """Compute the log of the probability density for each point in X.

        Arguments:
            X (pandas.DataFrame):
                Values for which the log probability density will be computed.

        Returns:
            numpy.ndarray:
                Log probability density values for points in X.

        Raises:
            NotFittedError:
                if the model is not fitted.
        """
        return np.log(self.probability_density(X))

    def pdf(self, X):
        """Compute the probability density for each point in X.

        Arguments:
            X (pandas.DataFrame):
                Values for which the probability density will be computed.

        Returns:
            numpy.ndarray:
                Probability density values for points in X.

        Raises:
            NotFittedError:
                if the model is not fitted.
        """
        return self.probability_density(X)

    def cumulative_distribution(self, X):
        """Compute the cumulative distribution value for each point in X.

        Arguments:
            X (pandas.DataFrame):
                Values for which the cumulative distribution will be computed.

        Returns:
            numpy.ndarray:
                Cumulative distribution values for points in X.

        Raises:
            NotFittedError:
                if the model is not fitted.
        """
        raise NotImplementedError

    def cdf(self, X):
        """Compute the cumulative distribution value for each point in X.

        Arguments:
            X (pandas.DataFrame):
                Values for which the cumulative distribution will be computed.

        Returns:
            numpy.ndarray:
                Cumulative distribution values for points in X.

        Raises:
            NotFittedError:
                if the model is not fitted.
        """
        return self.cumulative_distribution(X)

    def set_random_state(self, random_state):
        """Set the random state.

        Args:
            random_state (int, np.random.RandomState, or None):
                Seed or RandomState for the random generator.
        """
        self.random_state = validate_random_state(random_state)

    def sample(self, num_rows=1):
        """Sample values from this model.

        Argument:
            num_rows (int):
                Number of rows to sample.

        Returns:
            numpy.ndarray:
                Array of shape (n_samples, *) with values randomly
                sampled from this model distribution.

        Raises:
            NotFittedError:
                if the model is not fitted.
        """
        raise NotImplementedError

    def to_dict(self):
        """Return a `dict` with the parameters to replicate this object.

        Returns:
            dict:
                Parameters of this distribution.
        """
        raise NotImplementedError

    @classmethod
    def from_dict(cls, params):
        """Create a new instance from a parameters dictionary.

        Args:
            params (dict):
                Parameters of the distribution, in the same format as the one
                returned by the ``to_dict`` method.

        Returns:
            Multivariate:
                Instance of the distribution defined on the parameters.
        """
        package, name = params['type'].rsplit('.', 1)
        multivariate_class = getattr(importlib.import_module(package), name)
        return multivariate_class.from_dict(params)

    @classmethod
    def load(cls, path):
        """Load a Multivariate instance from a pickle file.

        Args:
            path (str):
                Path to the pickle file where the distribution has been serialized.

        Returns:
            Multivariate:
                Loaded instance.
        """
        with open(path, 'rb') as pickle_file:
            return pickle.load(pickle_file)

    def save(self, path):
        """Serialize this multivariate instance using pickle.

        Args:
            path (str):
                Path to where this distribution will be serialized.
        """
        with open(path, 'wb') as pickle_file:
            pickle.dump(self, pickle_file)

    def check_fit(self):
        """Check whether this model has already been fit to a random variable.

        Raise a ``NotFittedError`` if it has not.

        Raises:
            NotFittedError:
                if the model is not fitted.
        """
        if not self.fitted:
            raise NotFittedError('This model is not fitted.')
