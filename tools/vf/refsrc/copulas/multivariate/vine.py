"""VineCopula module."""

import logging
import sys
import warnings

import numpy as np
import pandas as pd

from copulas.bivariate.base import Bivariate, CopulaTypes
from copulas.multivariate.base import Multivariate
from copulas.multivariate.tree import Tree, get_tree
from copulas.univariate.gaussian_kde import GaussianKDE
from copulas.utils import (
    EPSILON,
    check_valid_values,
    get_qualified_name,
    random_state,
    store_args,
    validate_random_state,
)

LOGGER = logging.getLogger(__name__)


class VineCopula(Multivariate):
    """Vine copula model.

    A :math:`vine` is a graphical representation of one factorization of the n-variate probability
    distribution in terms of :math:`n(n − 1)/2` bivariate copulas by means of the chain rule.

    It consists of a sequence of levels and as many levels as variables. Each level consists of
    a tree (no isolated nodes and no loops) satisfying that if it has :math:`n` nodes there must
    be :math:`n − 1` edges.

    Each node in tree :math:`T_1` is a variable and edges are couplings of variables constructed
    with bivariate copulas.

    Each node in tree :math:`T_{k+1}` is a coupling in :math:`T_{k}`, expressed by the copula
    of the variables; while edges are couplings between two vertices that must have one variable
    in common, becoming a conditioning variable in the bivariate copula. Thus, every level has
    one node less than the former. Once all the trees are drawn, the factorization is the product
    of all the nodes.

    Args:
        vine_type (str):
            type of the vine copula, could be 'center','direct','regular'
        random_state (int or np.random.RandomState):
            Random seed or RandomState to use.


    Attributes:
        model (copulas.univariate.Univariate):
            Distribution to compute univariates.
        u_matrix (numpy.array):
            Univariates.
        n_sample (int):
            Number of samples.
        n_var (int):
            Number of variables.
        columns (pandas.Series):
            Names of the variables.
        tau_mat (numpy.array):
            Kendall correlation parameters for data.
        truncated (int):
            Max level used to build the vine.
        depth (int):
            Vine depth.
        trees (list[Tree]):
            List of trees used by this vine.
        ppfs (list[callable]):
            percent point functions from the univariates used by this vine.
    """

    @store_args
    def __init__(self, vine_type, random_state=None):
        if sys.version_info > (3, 8):
            warnings.warn(
                'Vines have not been fully tested on Python >= 3.8 and might produce wrong results.'
            )

        self.random_state = validate_random_state(random_state)
        self.vine_type = vine_type
        self.u_matrix = None

        self.model = GaussianKDE

    @classmethod
    def _deserialize_trees(cls, tree_list):
        previous = Tree.from_dict(tree_list[0])
        trees = [previous]

        for tree_dict in tree_list[1:]:
            tree = Tree.from_dict(tree_dict, previous)
            trees.append(tree)
            previous = tree

        return trees

    def to_dict(self):
        """Return a `dict` with the parameters to replicate this Vine.

        Returns:
            dict:
                Parameters of this Vine.
        """
        result = {
            'type': get_qualified_name(self),
            'vine_type': self.vine_type,
            'fitted': self.fitted,
        }

        if not self.fitted:
            return result

        result.update({
            'n_sample': self.n_sample,
            'n_var': self.n_var,
            'depth': self.depth,
            'truncated': self.truncated,
            'trees': [tree.to_dict() for tree in self.trees],
            'tau_mat': self.tau_mat.tolist(),
            'u_matrix': self.u_matrix.tolist(),
            'unis': [distribution.to_dict() for distribution in self.unis],
            'columns': self.columns,
        })
        return result

    @classmethod
    def from_dict(cls, vine_dict):
        """Create a new instance from a parameters dictionary.

        Args:
            params (dict):
                Parameters of the Vine, in the same format as the one
                returned by the ``to_dict`` method.

        Returns:
            Vine:
                Instance of the Vine defined on the parameters.
        """
        instance = cls(vine_dict['vine_type'])
        fitted = vine_dict['fitted']
        if fitted:
            instance.fitted = fitted
            instance.n_sample = vine_dict['n_sample']
            instance.n_var = vine_dict['n_var']
            instance.truncated = vine_dict['truncated']
            instance.depth = vine_dict['depth']
            instance.trees = cls._deserialize_trees(vine_dict['trees'])
            instance.unis = [GaussianKDE.from_dict(uni) for uni in vine_dict['unis']]
            instance.ppfs = [uni.percent_point for uni in instance.unis]
            instance.columns = vine_dict['columns']
            instance.tau_mat = np.array(vine_dict['tau_mat'])
            instance.u_matrix = np.array(vine_dict['u_matrix'])

        return instance

    @check_valid_values
    def fit(self, X, truncated=3):
        """Fit a vine model to the data.

        1. Transform all the variables by means of their marginals.
        In other words, compute

        .. math:: u_i = F_i(x_i), i = 1, ..., n

        and compose the matrix :math:`u = u_1, ..., u_n,` where :math:`u_i` are their columns.

        Args:
            X (numpy.ndarray):
                Data to be fitted to.
            truncated (int):
                Max level to build the vine.
        """
        LOGGER.info('Fitting VineCopula("%s")', self.vine_type)
        self.n_sample, self.n_var = X.shape
        self.columns = X.columns
        self.tau_mat = X.corr(method='kendall').to_numpy()
        self.u_matrix = np.empty([self.n_sample, self.n_var])

        self.truncated = truncated
        self.depth = self.n_var - 1
        self.trees = []

        self.unis, self.ppfs = [], []
        for i, col in enumerate(X):
            uni = self.model()
            uni.fit(X[col])
            self.u_matrix[:, i] = uni.cumulative_distribution(X[col])
            self.unis.append(uni)
            self.ppfs.append(uni.percent_point)

        self.train_vine(self.vine_type)
        self.fitted = True

    def train_vine(self, tree_type):
        r"""Build the vine.

        1. For the construction of the first tree :math:`T_1`, assign one node to each variable
           and then couple them by maximizing the measure of association considered.
           Different vines impose different constraints on this construction. When those are
           applied different trees are achieved at this level.

        2. Select the copula that best fits to the pair of variables coupled by each edge in
           :math:`T_1`.

        3. Let :math:`C_{ij}(u_i , u_j )` be the copula for a given edge :math:`(u_i, u_j)`
           in :math:`T_1`. Then for every edge in :math:`T_1`, compute either

           .. math:: {v^1}_{j|i} = \\frac{\\partial C_{ij}(u_i, u_j)}{\\partial u_j}

           or similarly :math:`{v^1}_{i|j}`, which are conditional cdfs. When finished with
           all the edges, construct the new matrix with :math:`v^1` that has one less column u.

        4. Set k = 2.

        5. Assign one node of :math:`T_k` to each edge of :math:`T_ {k−1}`. The structure of
           :math:`T_{k−1}` imposes a set of constraints on which edges of :math:`T_k` are
           realizable. Hence the next step is to get a linked list of the accesible nodes for
           every node in :math:`T_k`.

        6. As in step 1, nodes of :math:`T_k` are coupled maximizing the measure of association
           considered and satisfying the constraints impose by the kind of vine employed plus the
           set of constraints imposed by tree :math:`T_{k−1}`.

        7. Select the copula that best fit to each edge created in :math:`T_k`.

        8. Recompute matrix :math:`v_k` as in step 4, but taking :math:`T_k` and :math:`vk−1`
           instead of :math:`T_1` and u.

        9. Set :math:`k = k + 1` and repeat from (5) until all the trees are constructed.

        Args:
            tree_type (str or TreeTypes):
                Type of trees to use.
        """
        LOGGER.debug('start building tree : 0')
        # 1
        tree_1 = get_tree(tree_type)
        tree_1.fit(0, self.n_var, self.tau_mat, self.u_matrix)
        self.trees.append(tree_1)
        LOGGER.debug('finish building tree : 0')

        for k in range(1, min(self.n_var - 1, self.truncated)):
            # get constraints from previous tree
            self.trees[k - 1]._get_constraints()
            tau = self.trees[k - 1].get_tau_matrix()
            LOGGER.debug(f'start building tree: {k}')
            tree_k = get_tree(tree_type)
            tree_k.fit(k, self.n_var - k, tau, self.trees[k - 1])
            self.trees.append(tree_k)
            LOGGER.debug(f'finish building tree: {k}')

    def get_likelihood(self, uni_matrix):
        """Compute likelihood of the vine."""
        self.check_fit()
        num_tree = len(self.trees)
        values = np.empty([1, num_tree])

        for i in range(num_tree):
            value, new_uni_matrix = self.trees[i].get_likelihood(uni_matrix)
            uni_matrix = new_uni_matrix
            values[0, i] = value

        return np.sum(values)

    def _sample_row(self):
        """Generate a single sampled row from vine model.

        Returns:
            numpy.ndarray
        """
        unis = np.random.uniform(0, 1, self.n_var)
        # randomly select a node to start with
        first_ind = np.random.randint(0, self.n_var)
        adj = self.trees[0].get_adjacent_matrix()
        visited = []
        explore = [first_ind]

        sampled = np.zeros(self.n_var)
        itr = 0
        while explore:
            current = explore.pop(0)
            adj_is_one = adj[current, :] == 1
            neighbors = np.where(adj_is_one)[0].tolist()
            if itr == 0:
                new_x = self.ppfs[current](unis[current])

            else:
                for i in range(itr - 1, -1, -1):
                    current_ind = -1

                    if i >= self.truncated:
                        continue

                    current_tree = self.trees[i].edges
                    # get index of edge to retrieve
                    for edge in current_tree:
                        if i == 0:
                            if (edge.L == current and edge.R == visited[0]) or (
                                edge.R == current and edge.L == visited[0]
                            ):
                                current_ind = edge.index
                                break
                        else:
                            if edge.L == current or edge.R == current:
                                condition = set(edge.D)
                                condition.add(edge.L)  # noqa: PD005
                                condition.add(edge.R)  # noqa: PD005

                                visit_set = set(visited)
                                visit_set.add(current)  # noqa: PD005

                                if condition.issubset(visit_set):
                                    current_ind = edge.index
                                break

                    if current_ind != -1:
                        # the node is not indepedent contional on visited node
                        copula_type = current_tree[current_ind].name
                        copula = Bivariate(copula_type=CopulaTypes(copula_type))
                        copula.theta = current_tree[current_ind].theta

                        U = np.array([unis[visited[0]]])
                        if i == itr - 1:
                            tmp = copula.percent_point(np.array([unis[current]]), U)[0]
                        else:
                            tmp = copula.percent_point(np.array([tmp]), U)[0]

                        tmp = min(max(tmp, EPSILON), 0.99)

                new_x = self.ppfs[current](np.array([tmp]))

            sampled[current] = np.ravel(new_x)[0]

            for s in neighbors:
                if s not in visited:
                    explore.insert(0, s)

            itr += 1
            visited.insert(0, current)

        return sampled

    @random_state
    def sample(self, num_rows):
        """Sample new rows.

        Args:
            num_rows (int):
                Number of rows to sample

        Returns:
            pandas.DataFrame:
                sampled rows.
        """
        self.check_fit()
        sampled_values = []
        for i in range(num_rows):
            sampled_values.append(self._sample_row())

        return pd.DataFrame(sampled_values, columns=self.columns)
