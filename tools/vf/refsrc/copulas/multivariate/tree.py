"""Multivariate trees module."""

import logging
from enum import Enum

import numpy as np
import scipy

from copulas.bivariate.base import Bivariate
from copulas.multivariate.base import Multivariate
from copulas.utils import EPSILON, get_qualified_name

LOGGER = logging.getLogger(__name__)


class TreeTypes(Enum):
    """The available types of trees."""

    CENTER = 0
    DIRECT = 1
    REGULAR = 2


class Tree(Multivariate):
    """Helper class to instantiate a single tree in the vine model."""

    tree_type = None
    fitted = False

    def fit(self, index, n_nodes, tau_matrix, previous_tree, edges=None):
        """Fit this tree object.

        Args:
            index (int):
                index of the tree.
            n_nodes (int):
                number of nodes in the tree.
            tau_matrix (numpy.array):
                kendall's tau matrix of the data, shape (n_nodes, n_nodes).
            previous_tree (Tree):
                tree object of previous level.
        """
        self.level = index + 1
        self.n_nodes = n_nodes
        self.tau_matrix = np.array(tau_matrix)
        self.previous_tree = previous_tree
        self.edges = edges or []

        if not self.edges:
            if self.level == 1:
                self.u_matrix = previous_tree
                self._build_first_tree()

            else:
                self._build_kth_tree()

            self.prepare_next_tree()

        self.fitted = True

    def _check_constraint(self, edge1, edge2):
        """Check if two edges satisfy vine constraint.

        Args:
            edge1 (Edge):
                edge object representing edge1
            edge2 (Edge):
                edge object representing edge2

        Returns:
            bool:
                True if the two edges satisfy vine constraints
        """
        full_node = {edge1.L, edge1.R, edge2.L, edge2.R}
        full_node.update(edge1.D)
        full_node.update(edge2.D)
        return len(full_node) == (self.level + 1)

    def _get_constraints(self):
        """Get neighboring edges for each edge in the edges."""
        num_edges = len(self.edges)
        for k in range(num_edges):
            for i in range(num_edges):
                # add to constraints if i shared an edge with k
                if k != i and self.edges[k].is_adjacent(self.edges[i]):
                    self.edges[k].neighbors.append(i)

    def _sort_tau_by_y(self, y):
        """Sort tau matrix by dependece with variable y.

        Args:
            y (int):
                index of variable of intrest

        Returns:
            numpy.ndarray:
                sorted tau matrix.
        """
        # first column is the variable of interest
        tau_y = self.tau_matrix[:, y]
        tau_y[y] = np.nan

        temp = np.empty([self.n_nodes, 3])
        temp[:, 0] = np.arange(self.n_nodes)
        temp[:, 1] = tau_y
        temp[:, 2] = abs(tau_y)
        temp[np.isnan(temp)] = -10
        sort_temp = temp[:, 2].argsort()[::-1]
        tau_sorted = temp[sort_temp]

        return tau_sorted

    def get_tau_matrix(self):
        """Get tau matrix for adjacent pairs.

        Returns:
            tau (numpy.ndarray):
                tau matrix for the current tree
        """
        num_edges = len(self.edges)
        tau = np.empty([num_edges, num_edges])

        for i in range(num_edges):
            edge = self.edges[i]
            for j in edge.neighbors:
                if self.level == 1:
                    left_u = self.u_matrix[:, edge.L]
                    right_u = self.u_matrix[:, edge.R]

                else:
                    left_parent, right_parent = edge.parents
                    left_u, right_u = Edge.get_conditional_uni(left_parent, right_parent)

                tau[i, j], _pvalue = scipy.stats.kendalltau(left_u, right_u)

        return tau

    def get_adjacent_matrix(self):
        """Get adjacency matrix.

        Returns:
            numpy.ndarray:
                adjacency matrix
        """
        edges = self.edges
        num_edges = len(edges) + 1
        adj = np.zeros([num_edges, num_edges])

        for k in range(num_edges - 1):
            adj[edges[k].L, edges[k].R] = 1
            adj[edges[k].R, edges[k].L] = 1

        return adj

    def prepare_next_tree(self):
        """Prepare conditional U matrix for next tree."""
        for edge in self.edges:
            copula_theta = edge.theta

            if self.level == 1:
                left_u = self.u_matrix[:, edge.L]
                right_u = self.u_matrix[:, edge.R]

            else:
                left_parent, right_parent = edge.parents
                left_u, right_u = Edge.get_conditional_uni(left_parent, right_parent)

            # compute conditional cdfs C(i|j) = dC(i,j)/duj and dC(i,j)/du
            left_u = [x for x in left_u if x is not None]
            right_u = [x for x in right_u if x is not None]
            X_left_right = np.array([[x, y] for x, y in zip(left_u, right_u)])
            X_right_left = np.array([[x, y] for x, y in zip(right_u, left_u)])

            copula = Bivariate(copula_type=edge.name)
            copula.theta = copula_theta
            left_given_right = copula.partial_derivative(X_left_right)
            right_given_left = copula.partial_derivative(X_right_left)

            # correction of 0 or 1
            left_given_right[left_given_right == 0] = EPSILON
            right_given_left[right_given_left == 0] = EPSILON
            left_given_right[left_given_right == 1] = 1 - EPSILON
            right_given_left[right_given_left == 1] = 1 - EPSILON
            edge.U = np.array([left_given_right, right_given_left])

    def get_likelihood(self, uni_matrix):
        """Compute likelihood of the tree given an U matrix.

        Args:
            uni_matrix (numpy.array):
                univariate matrix to evaluate likelihood on.

        Returns:
            tuple[float, numpy.array]:
                likelihood of the current tree, next level conditional univariate matrix
        """
        uni_dim = uni_matrix.shape[1]
        num_edge = len(self.edges)
        values = np.zeros([1, num_edge])
        new_uni_matrix = np.empty([uni_dim, uni_dim])

        for i in range(num_edge):
            edge = self.edges[i]
            value, left_u, right_u = edge.get_likelihood(uni_matrix)
            new_uni_matrix[edge.L, edge.R] = np.ravel(left_u)[0]
            new_uni_matrix[edge.R, edge.L] = np.ravel(right_u)[0]
            values[0, i] = np.log(value)

        return np.sum(values), new_uni_matrix

    def __str__(self):
        """Produce printable representation of the class."""
        template = 'L:{} R:{} D:{} Copula:{} Theta:{}'
        return '\n'.join([
            template.format(edge.L, edge.R, edge.D, edge.name, edge.theta) for edge in self.edges
        ])

    def _serialize_previous_tree(self):
        if self.level == 1:
            return self.previous_tree.tolist()

        return None

    @classmethod
    def _deserialize_previous_tree(cls, tree_dict, previous):
        if tree_dict['level'] == 1:
            return np.array(tree_dict['previous_tree'])

        return previous

    def to_dict(self):
        """Return a `dict` with the parameters to replicate this Tree.

        Returns:
            dict:
                Parameters of this Tree.
        """
        fitted = self.fitted
        result = {'tree_type': self.tree_type, 'type': get_qualified_name(self), 'fitted': fitted}

        if not fitted:
            return result

        result.update({
            'level': self.level,
            'n_nodes': self.n_nodes,
            'tau_matrix': self.tau_matrix.tolist(),
            'previous_tree': self._serialize_previous_tree(),
            'edges': [edge.to_dict() for edge in self.edges],
        })

        return result

    @classmethod
    def from_dict(cls, tree_dict, previous=None):
        """Create a new instance from a parameters dictionary.

        Args:
            params (dict):
                Parameters of the Tree, in the same format as the one
                returned by the ``to_dict`` method.

        Returns:
            Tree:
                Instance of the tree defined on the parameters.
        """
        instance = get_tree(tree_dict['tree_type'])

        fitted = tree_dict['fitted']
        instance.fitted = fitted
        if fitted:
            instance.level = tree_dict['level']
            instance.n_nodes = tree_dict['n_nodes']
            instance.tau_matrix = np.array(tree_dict['tau_matrix'])
            instance.previous_tree = cls._deserialize_previous_tree(tree_dict, previous)
            instance.edges = [Edge.from_dict(edge) for edge in tree_dict['edges']]

        return instance


class CenterTree(Tree):
    """Tree for a C-vine copula."""

    tree_type = TreeTypes.CENTER

    def _build_first_tree(self):
        """Build first level tree."""
        tau_sorted = self._sort_tau_by_y(0)
        for itr in range(self.n_nodes - 1):
            ind = int(tau_sorted[itr, 0])
            copula = Bivariate.select_copula(self.u_matrix[:, (0, ind)])
            name, theta = copula.copula_type, copula.theta

            new_edge = Edge(itr, 0, ind, name, theta)
            new_edge.tau = self.tau_matrix[0, ind]
            self.edges.append(new_edge)

    def _build_kth_tree(self):
        """Build k-th level tree."""
        anchor = self.get_anchor()
        aux_sorted = self._sort_tau_by_y(anchor)
        edges = self.previous_tree.edges

        for itr in range(self.n_nodes - 1):
            right = int(aux_sorted[itr, 0])
            left_parent, right_parent = Edge.sort_edge([edges[anchor], edges[right]])
            new_edge = Edge.get_child_edge(itr, left_parent, right_parent)
            new_edge.tau = aux_sorted[itr, 1]
            self.edges.append(new_edge)

    def get_anchor(self):
        """Find anchor variable with highest sum of dependence with the rest.

        Returns:
            int:
                Anchor variable.
        """
        temp = np.empty([self.n_nodes, 2])
        temp[:, 0] = np.arange(self.n_nodes, dtype=int)
        temp[:, 1] = np.sum(abs(self.tau_matrix), 1)
        anchor = int(temp[0, 0])
        return anchor


class DirectTree(Tree):
    """DirectTree class."""

    tree_type = TreeTypes.DIRECT

    def _build_first_tree(self):
        # find the pair of maximum tau
        tau_matrix = self.tau_matrix
        tau_sorted = self._sort_tau_by_y(0)
        left_ind = tau_sorted[0, 0]
        right_ind = tau_sorted[1, 0]
        T1 = np.array([left_ind, 0, right_ind]).astype(int)
        tau_T1 = tau_sorted[:2, 1]

        # replace tau matrix of the selected variables as a negative number
        tau_matrix[:, [T1]] = -10
        for k in range(2, self.n_nodes - 1):
            left = np.argmax(tau_matrix[T1[0], :])
            right = np.argmax(tau_matrix[T1[-1], :])
            valL = np.max(tau_matrix[T1[0], :])
            valR = np.max(tau_matrix[T1[-1], :])

            if valL > valR:
                # add nodes to the left
                T1 = np.append(int(left), T1)
                tau_T1 = np.append(valL, tau_T1)
                tau_matrix[:, left] = -10

            else:
                # add node to the right
                T1 = np.append(T1, int(right))
                tau_T1 = np.append(tau_T1, valR)
                tau_matrix[:, right] = -10

        for k in range(self.n_nodes - 1):
            copula = Bivariate.select_copula(self.u_matrix[:, (T1[k], T1[k + 1])])
            name, theta = copula.copula_type, copula.theta

            left, right = sorted([T1[k], T1[k + 1]])
            new_edge = Edge(k, left, right, name, theta)
            new_edge.tau = tau_T1[k]
            self.edges.append(new_edge)

    def _build_kth_tree(self):
        edges = self.previous_tree.edges
        for k in range(self.n_nodes - 1):
            left_parent, right_parent = Edge.sort_edge([edges[k], edges[k + 1]])
            new_edge = Edge.get_child_edge(k, left_parent, right_parent)
            new_edge.tau = self.tau_matrix[k, k + 1]
            self.edges.append(new_edge)


class RegularTree(Tree):
    """RegularTree class."""

    tree_type = TreeTypes.REGULAR

    def _build_first_tree(self):
        """Build the first tree with n-1 variable."""
        # Prim's algorithm
        neg_tau = -1.0 * abs(self.tau_matrix)
        X = {0}

        while len(X) != self.n_nodes:
            adj_set = set()
            for x in X:
                for k in range(self.n_nodes):
                    if k not in X and k != x:
                        adj_set.add((x, k))  # noqa: PD005

            # find edge with maximum
            edge = sorted(adj_set, key=lambda e: neg_tau[e[0]][e[1]])[0]
            copula = Bivariate.select_copula(self.u_matrix[:, (edge[0], edge[1])])
            name, theta = copula.copula_type, copula.theta

            left, right = sorted([edge[0], edge[1]])
            new_edge = Edge(len(X) - 1, left, right, name, theta)
            new_edge.tau = self.tau_matrix[edge[0], edge[1]]
            self.edges.append(new_edge)
            X.add(edge[1])  # noqa: PD005

    def _build_kth_tree(self):
        """Build tree for level k."""
        neg_tau = -1.0 * abs(self.tau_matrix)
        edges = self.previous_tree.edges
        visited = {0}
        unvisited = set(range(self.n_nodes))

        while len(visited) != self.n_nodes:
            adj_set = set()
            for x in visited:
                for k in range(self.n_nodes):
                    # check if (x,k) is a valid edge in the vine
                    if k not in visited and k != x and self._check_constraint(edges[x], edges[k]):
                        adj_set.add((x, k))  # noqa: PD005

            # find edge with maximum tau
            if len(adj_set) == 0:
                visited.add(list(unvisited)[0])  # noqa: PD005
                continue

            pairs = sorted(adj_set, key=lambda e: neg_tau[e[0]][e[1]])[0]
            left_parent, right_parent = Edge.sort_edge([edges[pairs[0]], edges[pairs[1]]])

            new_edge = Edge.get_child_edge(len(visited) - 1, left_parent, right_parent)
            new_edge.tau = self.tau_matrix[pairs[0], pairs[1]]
            self.edges.append(new_edge)

            visited.add(pairs[1])  # noqa: PD005
            unvisited.remove(pairs[1])


def get_tree(tree_type):
    """Get a Tree instance of the specified type.

    Args:
        tree_type (str or TreeTypes):
            Type of tree of which to get an instance.

    Returns:
        Tree:
            Instance of a Tree of the specified type.
    """
    if not isinstance(tree_type, TreeTypes):
        if isinstance(tree_type, str) and tree_type.upper() in TreeTypes.__members__:
            tree_type = TreeTypes[tree_type.upper()]
        else:
            raise ValueError(f'Invalid tree type {tree_type}')

    if tree_type == TreeTypes.CENTER:
        return CenterTree()
    if tree_type == TreeTypes.REGULAR:
        return RegularTree()
    if tree_type == TreeTypes.DIRECT:
        return DirectTree()


class Edge(object):
    """Represents an edge in the copula."""

    def __init__(self, index, left, right, copula_name, copula_theta):
        """Initialize an Edge object.

        Args:
            left (int):
                left_node index (smaller)
            right (int):
                right_node index (larger)
            copula_name (str):
                name of the fitted copula class
            copula_theta (float):
                parameters of the fitted copula class
        """
        self.index = index
        self.L = left
        self.R = right
        self.D = set()  # dependence_set
        self.parents = None
        self.neighbors = []

        self.name = copula_name
        self.theta = copula_theta
        self.tau = None
        self.U = None
        self.likelihood = None

    @staticmethod
    def _identify_eds_ing(first, second):
        """Find nodes connecting adjacent edges.

        Args:
            first (Edge):
                Edge object representing the first edge.
            second (Edge):
                Edge object representing the second edge.

        Returns:
            tuple[int, int, set[int]]:
                The first two values represent left and right node
                indicies of the new edge. The third value is the new dependence set.
        """
        A = {first.L, first.R}
        A.update(first.D)

        B = {second.L, second.R}
        B.update(second.D)

        depend_set = A & B
        left, right = sorted(A ^ B)

        return left, right, depend_set

    def is_adjacent(self, another_edge):
        """Check if two edges are adjacent.

        Args:
            another_edge (Edge):
                edge object of another edge

        Returns:
            bool:
                True if the two edges are adjacent.
        """
        return (
            self.L == another_edge.L
            or self.L == another_edge.R
            or self.R == another_edge.L
            or self.R == another_edge.R
        )

    @staticmethod
    def sort_edge(edges):
        """Sort iterable of edges first by left node indices then right.

        Args:
            edges (list[Edge]):
                List of edges to be sorted.

        Returns:
            list[Edge]:
                Sorted list by left and right node indices.
        """
        return sorted(edges, key=lambda x: (x.L, x.R))

    @classmethod
    def get_conditional_uni(cls, left_parent, right_parent):
        """Identify pair univariate value from parents.

        Args:
            left_parent (Edge):
                left parent
            right_parent (Edge):
                right parent

        Returns:
            tuple[np.ndarray, np.ndarray]:
                left and right parents univariate.
        """
        left, right, _ = cls._identify_eds_ing(left_parent, right_parent)

        left_u = left_parent.U[0] if left_parent.L == left else left_parent.U[1]
        right_u = right_parent.U[0] if right_parent.L == right else right_parent.U[1]

        return left_u, right_u

    @classmethod
    def get_child_edge(cls, index, left_parent, right_parent):
        """Construct a child edge from two parent edges.

        Args:
            index (int):
                Index of the new Edge.
            left_parent (Edge):
                Left parent
            right_parent (Edge):
                Right parent

        Returns:
            Edge:
                The new child edge.
        """
        [ed1, ed2, depend_set] = cls._identify_eds_ing(left_parent, right_parent)
        left_u, right_u = cls.get_conditional_uni(left_parent, right_parent)
        X = np.array([[x, y] for x, y in zip(left_u, right_u)])
        copula = Bivariate.select_copula(X)
        name, theta = copula.copula_type, copula.theta
        new_edge = Edge(index, ed1, ed2, name, theta)
        new_edge.D = depend_set
        new_edge.parents = [left_parent, right_parent]
        return new_edge

    def get_likelihood(self, uni_matrix):
        """Compute likelihood given a U matrix.

        Args:
            uni_matrix (numpy.array):
                Matrix to compute the likelihood.

        Return:
            tuple (np.ndarray, np.ndarray, np.array):
                likelihood and conditional values.
        """
        if self.parents is None:
            left_u = uni_matrix[:, self.L]
            right_u = uni_matrix[:, self.R]

        else:
            left_ing = list(self.D - self.parents[0].D)[0]
            right_ing = list(self.D - self.parents[1].D)[0]
            left_u = uni_matrix[self.L, left_ing]
            right_u = uni_matrix[self.R, right_ing]

        copula = Bivariate(copula_type=self.name)
        copula.theta = self.theta

        X_left_right = np.array([[left_u, right_u]])
        X_right_left = np.array([[right_u, left_u]])

        value = np.sum(copula.probability_density(X_left_right))
        left_given_right = copula.partial_derivative(X_left_right)
        right_given_left = copula.partial_derivative(X_right_left)

        return value, left_given_right, right_given_left

    def to_dict(self):
        """Return a `dict` with the parameters to replicate this Edge.

        Returns:
            dict:
                Parameters of this Edge.
        """
        parents = None
        if self.parents:
            parents = [parent.to_dict() for parent in self.parents]

        U = None
        if self.U is not None:
            U = self.U.tolist()

        return {
            'index': self.index,
            'L': self.L,
            'R': self.R,
            'D': self.D,
            'parents': parents,
            'neighbors': self.neighbors,
            'name': self.name,
            'theta': self.theta,
            'tau': self.tau,
            'U': U,
            'likelihood': self.likelihood,
        }

    @classmethod
    def from_dict(cls, edge_dict):
        """Create a new instance from a parameters dictionary.

        Args:
            params (dict):
                Parameters of the Edge, in the same format as the one
                returned by the ``to_dict`` method.

        Returns:
            Edge:
                Instance of the edge defined on the parameters.
        """
        instance = cls(
            edge_dict['index'],
            edge_dict['L'],
            edge_dict['R'],
            edge_dict['name'],
            edge_dict['theta'],
        )
        instance.U = np.array(edge_dict['U'])
        parents = edge_dict['parents']

        if parents:
            instance.parents = []
            for parent in parents:
                edge = Edge.from_dict(parent)
                instance.parents.append(edge)

        regular_attributes = ['D', 'tau', 'likelihood', 'neighbors']
        for key in regular_attributes:
            setattr(instance, key, edge_dict[key])

        return instance
