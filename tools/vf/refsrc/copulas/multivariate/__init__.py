"""Multivariate copulas module."""

from copulas.multivariate.base import Multivariate
from copulas.multivariate.gaussian import GaussianMultivariate
from copulas.multivariate.tree import Tree, TreeTypes
from copulas.multivariate.vine import VineCopula

__all__ = ('Multivariate', 'GaussianMultivariate', 'VineCopula', 'Tree', 'TreeTypes')
