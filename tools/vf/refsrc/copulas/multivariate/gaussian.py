"""GaussianMultivariate module."""

import logging
import sys

import numpy as np
import pandas as pd
from scipy import stats

from copulas.multivariate.base import Multivariate
from copulas.univariate import GaussianUnivariate, Univariate
from copulas.utils import (
    EPSILON,
    check_valid_values,
    get_instance,
    get_qualified_name,
    random_state,
    store_args,
    validate_random_state,
)

LOGGER = logging.getLogger(__name__)
DEFAULT_DISTRIBUTION = Univariate


class GaussianMultivariate(Multivariate):
    """Class for a multivariate distribution that uses the Gaussian copula.

    Args:
        distribution (str or dict):
            Fully qualified name of the class to be used for modeling the marginal
            distributions or a dictionary mapping column names to the fully qualified
            distribution names.
    """

    correlation = None
    columns = None
    univariates = None

    @store_args
    def __init__(self, distribution=DEFAULT_DISTRIBUTION, random_state=None):
        self.random_state = validate_random_state(random_state)
        self.distribution = distribution

    def __repr__(self):
        """Produce printable representation of the object."""
        if self.distribution == DEFAULT_DISTRIBUTION:
            distribution = ''
        elif isinstance(self.distribution, type):
            distribution = f'distribution="{self.distribution.__name__}"'
        else:
            distribution = f'distribution="{self.distribution}"'

        return f'GaussianMultivariate({distribution})'

    def _transform_to_normal(self, X):
        if isinstance(X, pd.Series):
            X = X.to_frame().T
        elif not isinstance(X, pd.DataFrame):
            if len(X.shape) == 1:
                X = [X]

            X = pd.DataFrame(X, columns=self.columns)

        U = []
        for column_name, univariate in zip(self.columns, self.univariates):
            if column_name in X:
                column = X[column_name]
                U.append(univariate.cdf(column.to_numpy()).clip(EPSILON, 1 - EPSILON))

        return stats.norm.ppf(np.column_stack(U))

    @check_valid_values
    def fit(self, X):
        """Compute the distribution for each variable and then its correlation matrix.

        Arguments:
            X (pandas.DataFrame):
                Values of the random variables.
        """
        LOGGER.info('Fitting %s', self)

        # Validate the input data
        X = self._validate_input(X)
        columns, univariates = self._fit_columns(X)

        self.columns = columns
        self.univariates = univariates

        LOGGER.debug('Computing correlation.')
        self.correlation = self._get_correlation(X)
        self.fitted = True
        LOGGER.debug('GaussianMultivariate fitted successfully')

    def _validate_input(self, X):
        """Validate the input data."""
        if not isinstance(X, pd.DataFrame):
            X = pd.DataFrame(X)

        return X

    def _fit_columns(self, X):
        """Fit each column to its distribution."""
        columns = []
        univariates = []
        for column_name, column in X.items():
            distribution = self._get_distribution_for_column(column_name)
            LOGGER.debug('Fitting column %s to %s', column_name, distribution)

            univariate = self._fit_column(column, distribution, column_name)
            columns.append(column_name)
            univariates.append(univariate)

        return columns, univariates

    def _get_distribution_for_column(self, column_name):
        """Retrieve the distribution for a given column name."""
        if isinstance(self.distribution, dict):
            return self.distribution.get(column_name, DEFAULT_DISTRIBUTION)

        return self.distribution

    def _fit_column(self, column, distribution, column_name):
        """Fit a single column to its distribution with exception handling."""
        univariate = get_instance(distribution)
        try:
            univariate.fit(column)
        except Exception as error:
            univariate = self._fit_with_fallback_distribution(
                column, distribution, column_name, error
            )

        return univariate

    def _fit_with_fallback_distribution(self, column, distribution, column_name, error):
        """Fall back to fitting a Gaussian distribution and log the error."""
        log_message = (
            f'Unable to fit to a {distribution} distribution for column {column_name}. '
            'Using a Gaussian distribution instead.'
        )
        LOGGER.info(log_message)
        univariate = GaussianUnivariate()
        univariate.fit(column)
        return univariate

    def _get_correlation(self, X):
        """Compute correlation matrix with transformed data.

        Args:
            X (numpy.ndarray):
                Data for which the correlation needs to be computed.

        Returns:
            numpy.ndarray:
                computed correlation matrix.
        """
        result = self._transform_to_normal(X)
        correlation = pd.DataFrame(data=result).corr().to_numpy()
        correlation = np.nan_to_num(correlation, nan=0.0)
        # If singular, add some noise to the diagonal
        if np.linalg.cond(correlation) > 1.0 / sys.float_info.epsilon:
            correlation = correlation + np.identity(correlation.shape[0]) * EPSILON

        return pd.DataFrame(correlation, index=self.columns, columns=self.columns)

    def probability_density(self, X):
        """Compute the probability density for each point in X.

        Arguments:
            X (pandas.DataFrame):
                Values for which the probability density will be computed.

        Returns:
            numpy.ndarray:
                Probability density values for points in X.

        Raises:
            NotFittedError:
                if the model is not fitted.
        """
        self.check_fit()
        transformed = self._transform_to_normal(X)

        return stats.multivariate_normal.pdf(transformed, cov=self.correlation, allow_singular=True)

    def cumulative_distribution(self, X):
        """Compute the cumulative distribution value for each point in X.

        Arguments:
            X (pandas.DataFrame):
                Values for which the cumulative distribution will be computed.

        Returns:
            numpy.ndarray:
                Cumulative distribution values for points in X.

        Raises:
            NotFittedError:
                if the model is not fitted.
        """
        self.check_fit()
        transformed = self._transform_to_normal(X)
        return stats.multivariate_normal.cdf(transformed, cov=self.correlation)

    def _get_conditional_distribution(self, conditions):
        """Compute the parameters of a conditional multivariate normal distribution.

        The parameters of the conditioned distribution are computed as specified here:
        https://en.wikipedia.org/wiki/Multivariate_normal_distribution#Conditional_distributions

        Args:
            conditions (pandas.Series):
                Mapping of the column names and column values to condition on.
                The input values have already been transformed to their normal distribution.

        Returns:
            tuple:
                * means (numpy.array):
                    mean values to use for the conditioned multivariate normal.
                * covariance (numpy.array):
                    covariance matrix to use for the conditioned
                  multivariate normal.
                * columns (list):
                    names of the columns that will be sampled conditionally.
        """
        columns2 = conditions.index
        columns1 = self.correlation.columns.difference(columns2)

        sigma11 = self.correlation.loc[columns1, columns1].to_numpy()
        sigma12 = self.correlation.loc[columns1, columns2].to_numpy()
        sigma21 = self.correlation.loc[columns2, columns1].to_numpy()
        sigma22 = self.correlation.loc[columns2, columns2].to_numpy()

        mu1 = np.zeros(len(columns1))
        mu2 = np.zeros(len(columns2))

        sigma12sigma22inv = sigma12 @ np.linalg.inv(sigma22)

        mu_bar = mu1 + sigma12sigma22inv @ (conditions - mu2)
        sigma_bar = sigma11 - sigma12sigma22inv @ sigma21

        return mu_bar, sigma_bar, columns1

    def _get_normal_samples(self, num_rows, conditions):
        """Get random rows in the standard normal space.

        If no conditions are given, the values are sampled from a standard normal
        multivariate.

        If conditions are given, they are transformed to their equivalent standard
        normal values using their marginals and then the values are sampled from
        a standard normal multivariate conditioned on the given condition values.
        """
        if conditions is None:
            covariance = self.correlation
            columns = self.columns
            means = np.zeros(len(columns))
        else:
            conditions = pd.Series(conditions)
            normal_conditions = self._transform_to_normal(conditions)[0]
            known = [column for column in self.columns if column in conditions.index]
            normal_conditions = pd.Series(normal_conditions, index=known)
            means, covariance, columns = self._get_conditional_distribution(normal_conditions)

        samples = np.random.multivariate_normal(means, covariance, size=num_rows)
        return pd.DataFrame(samples, columns=columns)

    @random_state
    def sample(self, num_rows=1, conditions=None):
        """Sample values from this model.

        Argument:
            num_rows (int):
                Number of rows to sample.
            conditions (dict or pd.Series):
                Mapping of the column names and column values to condition on.

        Returns:
            numpy.ndarray:
                Array of shape (n_samples, *) with values randomly
                sampled from this model distribution. If conditions have been
                given, the output array also contains the corresponding columns
                populated with the given values.

        Raises:
            NotFittedError:
                if the model is not fitted.
        """
        self.check_fit()

        samples = self._get_normal_samples(num_rows, conditions)

        output = {}
        for column_name, univariate in zip(self.columns, self.univariates):
            if conditions is not None and column_name in conditions:
                # Use the values that were given as conditions in the original space.
                output[column_name] = np.full(num_rows, conditions[column_name])
            else:
                cdf = stats.norm.cdf(samples[column_name])
                output[column_name] = univariate.percent_point(cdf)

        return pd.DataFrame(data=output)

    def to_dict(self):
        """Return a `dict` with the parameters to replicate this object.

        Returns:
            dict:
                Parameters of this distribution.
        """
        self.check_fit()
        univariates = [univariate.to_dict() for univariate in self.univariates]

        return {
            'correlation': self.correlation.to_numpy().tolist(),
            'univariates': univariates,
            'columns': self.columns,
            'type': get_qualified_name(self),
        }

    @classmethod
    def from_dict(cls, copula_dict):
        """Create a new instance from a parameters dictionary.

        Args:
            params (dict):
                Parameters of the distribution, in the same format as the one
                returned by the ``to_dict`` method.

        Returns:
            Multivariate:
                Instance of the distribution defined on the parameters.
        """
        instance = cls()
        instance.univariates = []
        columns = copula_dict['columns']
        instance.columns = columns

        for parameters in copula_dict['univariates']:
            instance.univariates.append(Univariate.from_dict(parameters))

        correlation = copula_dict['correlation']
        instance.correlation = pd.DataFrame(correlation, index=columns, columns=columns)
        instance.fitted = True

        return instance
