"""Utils module."""

import contextlib
import importlib
from copy import deepcopy
from functools import wraps

import numpy as np
import pandas as pd

EPSILON = np.finfo(np.float32).eps


@contextlib.contextmanager
def set_random_state(random_state, set_model_random_state):
    """Context manager for managing the random state.

    Args:
        random_state (int or np.random.RandomState):
            The random seed or RandomState.
        set_model_random_state (function):
            Function to set the random state on the model.
    """
    original_state = np.random.get_state()
    np.random.set_state(random_state.get_state())

    try:
        yield
    finally:
        current_random_state = np.random.RandomState()
        current_random_state.set_state(np.random.get_state())
        set_model_random_state(current_random_state)
        np.random.set_state(original_state)


def random_state(function):
    """Set the random state before calling the function.

    Args:
        function (Callable):
            The function to wrap around.
    """

    @wraps(function)
    def wrapper(self, *args, **kwargs):
        if self.random_state is None:
            return function(self, *args, **kwargs)
        else:
            with set_random_state(self.random_state, self.set_random_state):
                return function(self, *args, **kwargs)

    return wrapper


def validate_random_state(random_state):
    """Validate random state argument.

    Args:
        random_state (int, numpy.random.RandomState, tuple, or None):
            Seed or RandomState for the random generator.

    Output:
        numpy.random.RandomState
    """
    if random_state is None:
        return None

    if isinstance(random_state, int):
        return np.random.RandomState(seed=random_state)
    elif isinstance(random_state, np.random.RandomState):
        return random_state
    else:
        raise TypeError(
            f'`random_state` {random_state} expected to be an int '
            'or `np.random.RandomState` object.'
        )


def get_instance(obj, **kwargs):
    """Create new instance of the ``obj`` argument.

    Args:
        obj (str, type, instance):
    """
    instance = None
    if isinstance(obj, str):
        package, name = obj.rsplit('.', 1)
        instance = getattr(importlib.import_module(package), name)(**kwargs)
    elif isinstance(obj, type):
        instance = obj(**kwargs)
    else:
        if kwargs:
            instance = obj.__class__(**kwargs)
        else:
            args = getattr(obj, '__args__', ())
            kwargs = getattr(obj, '__kwargs__', {})
            instance = obj.__class__(*args, **kwargs)

    return instance


def store_args(__init__):
    """Save ``*args`` and ``**kwargs`` used in the ``__init__`` of a copula.

    Args:
        __init__(callable): ``__init__`` function to store their arguments.

    Returns:
        callable: Decorated ``__init__`` function.
    """

    @wraps(__init__)
    def new__init__(self, *args, **kwargs):
        args_copy = deepcopy(args)
        kwargs_copy = deepcopy(kwargs)
        __init__(self, *args, **kwargs)
        self.__args__ = args_copy
        self.__kwargs__ = kwargs_copy

    return new__init__


def get_qualified_name(_object):
    """Return the Fully Qualified Name from an instance or class."""
    module = _object.__module__
    if hasattr(_object, '__name__'):
        _class = _object.__name__
    else:
        _class = _object.__class__.__name__

    return module + '.' + _class


def vectorize(function):
    """Allow a method that only accepts scalars to accept vectors too.

    This decorator has two different behaviors depending on the dimensionality of the
    array passed as an argument:

    **1-d array**

    It will work under the assumption that the `function` argument is a callable
    with signature::

        function(self, X, *args, **kwargs)

    where X is an scalar magnitude.

    In this case the arguments of the input array will be given one at a time, and
    both the input and output of the decorated function will have shape (n,).

    **2-d array**

    It will work under the assumption that the `function` argument is a callable with signature::

        function(self, X0, ..., Xj, *args, **kwargs)

    where `Xi` are scalar magnitudes.

    It will pass the contents of each row unpacked on each call. The input is espected to have
    shape (n, j), the output a shape of (n,)

    It will return a function that is guaranteed to return a `numpy.array`.

    Args:
        function(callable): Function that only accept and return scalars.

    Returns:
        callable: Decorated function that can accept and return :attr:`numpy.array`.

    """

    @wraps(function)
    def decorated(self, X, *args, **kwargs):
        if not isinstance(X, np.ndarray):
            return function(self, X, *args, **kwargs)

        if len(X.shape) == 1:
            X = X.reshape([-1, 1])

        if len(X.shape) == 2:
            return np.fromiter(
                (function(self, *x, *args, **kwargs) for x in X), np.dtype('float64')
            )
        else:
            raise ValueError('Arrays of dimensionality higher than 2 are not supported.')

    return decorated


def scalarize(function):
    """Allow methods that only accepts 1-d vectors to work with scalars.

    Args:
        function(callable): Function that accepts and returns vectors.

    Returns:
        callable: Decorated function that accepts and returns scalars.
    """

    @wraps(function)
    def decorated(self, X, *args, **kwargs):
        scalar = not isinstance(X, np.ndarray)

        if scalar:
            X = np.array([X])

        result = function(self, X, *args, **kwargs)
        if scalar:
            result = result[0]

        return result

    return decorated


def check_valid_values(function):
    """Raise an exception if the given values are not supported.

    Args:
        function(callable): Method whose unique argument is a numpy.array-like object.

    Returns:
        callable: Decorated function

    Raises:
        ValueError: If there are missing or invalid values or if the dataset is empty.
    """

    @wraps(function)
    def decorated(self, X, *args, **kwargs):
        if isinstance(X, pd.DataFrame):
            W = X.to_numpy()
        else:
            W = X

        if not len(W):
            raise ValueError('Your dataset is empty.')

        if not (np.issubdtype(W.dtype, np.floating) or np.issubdtype(W.dtype, np.integer)):
            raise ValueError('There are non-numerical values in your data.')

        if np.isnan(W).any().any():
            raise ValueError('There are nan values in your data.')

        return function(self, X, *args, **kwargs)

    return decorated
