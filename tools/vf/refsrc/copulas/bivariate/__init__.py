"""Bivariate copulas."""

import numpy as np
import pandas as pd

from copulas.utils import EPSILON
from copulas.bivariate.base import Bivariate, CopulaTypes
from copulas.bivariate.clayton import Clayton
from copulas.bivariate.frank import Frank
from copulas.bivariate.gumbel import Gumbel
from copulas.bivariate.utils import split_matrix

__all__ = (
    'Bivariate',
    'Clayton',
    'CopulaTypes',
    'Frank',
    'Gumbel',
)


COMPUTE_EMPIRICAL_STEPS = 50


def _compute_empirical(X):
    """Compute empirical distribution.

    Args:
        X(numpy.array): Shape (n,2); Datapoints to compute the empirical(frequentist) copula.

    Return:
        tuple(list):

    """
    z_left = []
    z_right = []
    L = []
    R = []

    U, V = split_matrix(X)
    N = len(U)
    base = np.linspace(EPSILON, 1.0 - EPSILON, COMPUTE_EMPIRICAL_STEPS)
    # See https://github.com/sdv-dev/Copulas/issues/45

    for k in range(COMPUTE_EMPIRICAL_STEPS):
        left = sum(np.logical_and(U <= base[k], V <= base[k])) / N
        right = sum(np.logical_and(U >= base[k], V >= base[k])) / N

        if left > 0:
            z_left.append(base[k])
            L.append(left / base[k] ** 2)

        if right > 0:
            z_right.append(base[k])
            R.append(right / (1 - z_right[k]) ** 2)

    return z_left, L, z_right, R


def _compute_tail(c, z):
    r"""Compute upper concentration function for tail.

    The upper tail concentration function is defined by:

    .. math:: R(z) = \frac{[1 − 2z + C(z, z)]}{(1 − z)^{2}}

    Args:
        c(Iterable): Values of :math:`C(z,z)`.
        z(Iterable): Values for the empirical copula.

    Returns:
        numpy.ndarray

    """
    return (1.0 - 2 * np.asarray(z) + c) / (np.power(1.0 - np.asarray(z), 2))


def _compute_candidates(copulas, left_tail, right_tail):
    """Compute dependencies.

    Args:
        copulas(list[Bivariate]): Fitted instances of bivariate copulas.
        z_left(list):
        z_right(list):

    Returns:
        tuple[list]: Arrays of left and right dependencies for the empirical copula.


    """
    left = []
    right = []

    X_left = np.column_stack((left_tail, left_tail))
    X_right = np.column_stack((right_tail, right_tail))

    for copula in copulas:
        left.append(copula.cumulative_distribution(X_left) / np.power(left_tail, 2))
        right.append(_compute_tail(copula.cumulative_distribution(X_right), right_tail))

    return left, right


def select_copula(X):
    r"""Select best copula function based on likelihood.

    Given out candidate copulas the procedure proposed for selecting the one
    that best fit to a dataset of pairs :math:`\{(u_j, v_j )\}, j=1,2,...n` , is as follows:

    1. Estimate the most likely parameter :math:`\theta` of each copula candidate for the given
       dataset.

    2. Construct :math:`R(z|\theta)`. Calculate the area under the tail for each of the copula
       candidates.

    3. Compare the areas: :math:`a_u` achieved using empirical copula against the ones
       achieved for the copula candidates. Score the outcome of the comparison from 3 (best)
       down to 1 (worst).

    4. Proceed as in steps 2- 3 with the lower tail and function :math:`L`.

    5. Finally the sum of empirical upper and lower tail functions is compared against
       :math:`R + L`. Scores of the three comparisons are summed and the candidate with the
       highest value is selected.

    Args:
        X(np.ndarray): Matrix of shape (n,2).

    Returns:
        copula: Best copula that fits for it.

    """
    frank = Frank()
    frank.fit(X)

    if frank.tau <= 0:
        return frank

    copula_candidates = [frank]

    # append copulas into the candidate list
    for copula_class in [Clayton, Gumbel]:
        try:
            copula = copula_class()
            copula.tau = frank.tau
            copula._compute_theta()
            copula_candidates.append(copula)
        except ValueError:
            pass

    left_tail, empirical_left_aut, right_tail, empirical_right_aut = _compute_empirical(X)
    candidate_left_auts, candidate_right_auts = _compute_candidates(
        copula_candidates, left_tail, right_tail
    )

    empirical_aut = np.concatenate((empirical_left_aut, empirical_right_aut))
    candidate_auts = [
        np.concatenate((left, right))
        for left, right in zip(candidate_left_auts, candidate_right_auts)
    ]

    # compute L2 distance from empirical distribution
    diff_left = [np.sum((empirical_left_aut - left) ** 2) for left in candidate_left_auts]
    diff_right = [np.sum((empirical_right_aut - right) ** 2) for right in candidate_right_auts]
    diff_both = [np.sum((empirical_aut - candidate) ** 2) for candidate in candidate_auts]

    # calcule ranks
    score_left = pd.Series(diff_left).rank(ascending=False)
    score_right = pd.Series(diff_right).rank(ascending=False)
    score_both = pd.Series(diff_both).rank(ascending=False)

    score = score_left + score_right + score_both

    selected_copula = np.argmax(score.to_numpy())
    return copula_candidates[selected_copula]
