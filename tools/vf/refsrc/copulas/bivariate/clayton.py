"""Clayton module."""

import numpy as np

from copulas.bivariate.base import Bivariate, CopulaTypes
from copulas.bivariate.utils import split_matrix


class Clayton(Bivariate):
    """Class for clayton copula model."""

    copula_type = CopulaTypes.CLAYTON
    theta_interval = [0, float('inf')]
    invalid_thetas = []

    def generator(self, t):
        r"""Compute the generator function for Clayton copula family.

        The generator is a function
        :math:`\psi: [0,1]\times\Theta \rightarrow [0, \infty)`  # noqa: JS101

        that given an Archimedian copula fulfills:
        .. math:: C(u,v) = \psi^{-1}(\psi(u) + \psi(v))

        Args:
            t (numpy.ndarray)

        Returns:
            numpy.ndarray

        """
        self.check_fit()

        return (1.0 / self.theta) * (np.power(t, -self.theta) - 1)

    def probability_density(self, X):
        r"""Compute probability density function for given copula family.

        The probability density(PDF) for the Clayton family of copulas correspond to the formula:

        .. math:: c(U,V) = \frac{\partial^2}{\partial v \partial u}C(u,v) =
            (\theta + 1)(uv)^{-\theta-1}(u^{-\theta} +
            v^{-\theta} - 1)^{-\frac{2\theta + 1}{\theta}}

        Args:
            X (numpy.ndarray)

        Returns:
            numpy.ndarray: Probability density for the input values.

        """
        self.check_fit()

        U, V = split_matrix(X)

        a = (self.theta + 1) * np.power(U * V, -(self.theta + 1))
        b = np.power(U, -self.theta) + np.power(V, -self.theta) - 1
        c = -(2 * self.theta + 1) / self.theta
        return a * np.power(b, c)

    def cumulative_distribution(self, X):
        """Compute the cumulative distribution function for the clayton copula.

        The cumulative density(cdf), or distribution function for the Clayton family of copulas
        correspond to the formula:

        .. math:: C(u,v) = (u^{-θ} + v^{-θ} - 1)^{-1/θ}

        Args:
            X (numpy.ndarray)

        Returns:
            numpy.ndarray: cumulative probability.

        """
        self.check_fit()

        U, V = split_matrix(X)

        if (V == 0).all() or (U == 0).all():
            return np.zeros(V.shape[0])

        else:
            cdfs = [
                np.power(
                    np.power(U[i], -self.theta) + np.power(V[i], -self.theta) - 1,
                    -1.0 / self.theta,
                )
                if (U[i] > 0 and V[i] > 0)
                else 0
                for i in range(len(U))
            ]

            return np.array(cdfs)

    def percent_point(self, y, V):
        """Compute the inverse of conditional cumulative distribution :math:`C(u|v)^{-1}`.

        Args:
            y (numpy.ndarray): Value of :math:`C(u|v)`.
            v (numpy.ndarray): given value of v.
        """
        self.check_fit()

        if self.theta < 0:
            return V

        else:
            a = np.power(y, self.theta / (-1 - self.theta))
            b = np.power(V, self.theta)

            # If b == 0, self.theta tends to inf,
            # so the next operation tends to 1
            if (b == 0).all():
                return np.ones(len(V))

            return np.power((a + b - 1) / b, -1 / self.theta)

    def partial_derivative(self, X):
        r"""Compute partial derivative of cumulative distribution.

        The partial derivative of the copula(CDF) is the conditional CDF.

        .. math:: F(v|u) = \frac{\partial C(u,v)}{\partial u} =
            u^{- \theta - 1}(u^{-\theta} + v^{-\theta} - 1)^{-\frac{\theta+1}{\theta}}

        Args:
            X (np.ndarray)
            y (float)

        Returns:
            numpy.ndarray: Derivatives

        """
        self.check_fit()

        U, V = split_matrix(X)

        A = np.power(V, -self.theta - 1)

        # If theta tends to inf, A tends to inf
        # And the next partial_derivative tends to 0
        if (A == np.inf).any():
            return np.zeros(len(V))

        B = np.power(V, -self.theta) + np.power(U, -self.theta) - 1
        h = np.power(B, (-1 - self.theta) / self.theta)
        return A * h

    def compute_theta(self):
        r"""Compute theta parameter using Kendall's tau.

        On Clayton copula this is

        .. math:: τ = θ/(θ + 2) \implies θ = 2τ/(1-τ)
        .. math:: θ ∈ (0, ∞)

        On the corner case of :math:`τ = 1`, return infinite.
        """
        if self.tau == 1:
            return np.inf

        return 2 * self.tau / (1 - self.tau)
