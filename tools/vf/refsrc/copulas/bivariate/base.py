"""This module contains a base class for bivariate copulas."""

import json
import warnings
from enum import Enum

import numpy as np
from scipy import stats
from scipy.optimize import brentq

from copulas.bivariate.utils import split_matrix
from copulas.errors import NotFittedError
from copulas.utils import EPSILON, random_state, validate_random_state


class CopulaTypes(Enum):
    """Available copula families."""

    CLAYTON = 0
    FRANK = 1
    GUMBEL = 2
    INDEPENDENCE = 3


class Bivariate(object):
    """Base class for bivariate copulas.

    This class allows to instantiate all its subclasses and serves as a unique entry point for
    the bivariate copulas classes.

    >>> Bivariate(copula_type=CopulaTypes.FRANK).__class__
    copulas.bivariate.frank.Frank

    >>> Bivariate(copula_type='frank').__class__
    copulas.bivariate.frank.Frank


    Args:
        copula_type (Union[CopulaType, str]): Subtype of the copula.
        random_state (Union[int, np.random.RandomState, None]): Seed or RandomState
            for the random generator.

    Attributes:
        copula_type(CopulaTypes): Family of the copula a subclass belongs to.
        _subclasses(list[type]): List of declared subclasses.
        theta_interval(list[float]): Interval of valid thetas for the given copula family.
        invalid_thetas(list[float]): Values that, even though they belong to
            :attr:`theta_interval`, shouldn't be considered valid.
        tau (float): Kendall's tau for the data given at :meth:`fit`.
        theta(float): Parameter for the copula.

    """

    copula_type = None
    _subclasses = []
    theta_interval = []
    invalid_thetas = []
    theta = None
    tau = None

    @classmethod
    def _get_subclasses(cls):
        """Find recursively subclasses for the current class object.

        Returns:
            list[Bivariate]: List of subclass objects.

        """
        subclasses = []
        for subclass in cls.__subclasses__():
            subclasses.append(subclass)
            subclasses.extend(subclass._get_subclasses())

        return subclasses

    @classmethod
    def subclasses(cls):
        """Return a list of subclasses for the current class object.

        Returns:
            list[Bivariate]: Subclasses for given class.

        """
        if not cls._subclasses:
            cls._subclasses = cls._get_subclasses()

        return cls._subclasses

    def __new__(cls, *args, **kwargs):
        """Create and return a new object.

        Returns:
            Bivariate: New object.
        """
        copula_type = kwargs.get('copula_type', None)
        if copula_type is None:
            return super(Bivariate, cls).__new__(cls)

        if not isinstance(copula_type, CopulaTypes):
            if isinstance(copula_type, str) and copula_type.upper() in CopulaTypes.__members__:
                copula_type = CopulaTypes[copula_type.upper()]
            else:
                raise ValueError(f'Invalid copula type {copula_type}')

        for subclass in cls.subclasses():
            if subclass.copula_type is copula_type:
                return super(Bivariate, cls).__new__(subclass)

    def __init__(self, copula_type=None, random_state=None):
        """Initialize Bivariate object.

        Args:
            copula_type (CopulaType or str): Subtype of the copula.
            random_state (int, np.random.RandomState, or None): Seed or RandomState
                for the random generator.
        """
        self.random_state = validate_random_state(random_state)

    def check_theta(self):
        """Validate the computed theta against the copula specification.

        This method is used to assert the computed theta is in the valid range for the copula.

        Raises:
            ValueError: If theta is not in :attr:`theta_interval` or is in :attr:`invalid_thetas`,

        """
        lower, upper = self.theta_interval
        if (not lower <= self.theta <= upper) or (self.theta in self.invalid_thetas):
            message = 'The computed theta value {} is out of limits for the given {} copula.'
            raise ValueError(message.format(self.theta, self.copula_type.name))

    def check_fit(self):
        """Assert that the model is fit and the computed `theta` is valid.

        Raises:
            NotFittedError: if the model is  not fitted.
            ValueError: if the computed theta is invalid.

        """
        if not self.theta:
            raise NotFittedError('This model is not fitted.')

        self.check_theta()

    def check_marginal(self, u):
        """Check that the marginals are uniformly distributed.

        Args:
            u(np.ndarray): Array of datapoints with shape (n,).

        Raises:
            ValueError: If the data does not appear uniformly distributed.
        """
        if min(u) < 0.0 or max(u) > 1.0:
            raise ValueError('Marginal value out of bounds.')

        emperical_cdf = np.sort(u)
        uniform_cdf = np.linspace(0.0, 1.0, num=len(u))
        ks_statistic = max(np.abs(emperical_cdf - uniform_cdf))
        if ks_statistic > 1.627 / np.sqrt(len(u)):
            # KS test with significance level 0.01
            warnings.warn('Data does not appear to be uniform.', category=RuntimeWarning)

    def _compute_theta(self):
        """Compute theta, validate it and assign it to self."""
        self.theta = self.compute_theta()
        self.check_theta()

    def fit(self, X):
        """Fit a model to the data updating the parameters.

        Args:
            X(np.ndarray): Array of datapoints with shape (n,2).

        Return:
            None
        """
        U, V = split_matrix(X)
        self.check_marginal(U)
        self.check_marginal(V)
        self.tau = stats.kendalltau(U, V)[0]
        if np.isnan(self.tau):
            if len(np.unique(U)) == 1 or len(np.unique(V)) == 1:
                raise ValueError('Constant column.')
            raise ValueError('Unable to compute tau.')
        self._compute_theta()

    def to_dict(self):
        """Return a `dict` with the parameters to replicate this object.

        Returns:
            dict: Parameters of the copula.

        """
        return {'copula_type': self.copula_type.name, 'theta': self.theta, 'tau': self.tau}

    @classmethod
    def from_dict(cls, copula_dict):
        """Create a new instance from the given parameters.

        Args:
            copula_dict: `dict` with the parameters to replicate the copula.
              Like the output of `Bivariate.to_dict`

        Returns:
            Bivariate: Instance of the copula defined on the parameters.

        """
        instance = Bivariate(copula_type=copula_dict['copula_type'])
        instance.theta = copula_dict['theta']
        instance.tau = copula_dict['tau']
        return instance

    def infer(self, X):
        """Take in subset of values and predicts the rest."""
        raise NotImplementedError

    def generator(self, t):
        r"""Compute the generator function for Archimedian copulas.

        The generator is a function
        :math:`\psi: [0,1]\times\Theta \rightarrow [0, \infty)`  # noqa: JS101

        that given an Archimedian copula fulfills:
        .. math:: C(u,v) = \psi^{-1}(\psi(u) + \psi(v))


        In a more generic way:

        .. math:: C(u_1, u_2, ..., u_n;\theta) = \psi^-1(\sum_0^n{\psi(u_i;\theta)}; \theta)

        """
        raise NotImplementedError

    def probability_density(self, X):
        r"""Compute probability density function for given copula family.

        The probability density(pdf) for a given copula is defined as:

        .. math:: c(U,V) = \frac{\partial^2 C(u,v)}{\partial v \partial u}

        Args:
            X(np.ndarray): Shape (n, 2).Datapoints to compute pdf.

        Returns:
            np.array: Probability density for the input values.

        """
        raise NotImplementedError

    def log_probability_density(self, X):
        """Return log probability density of model.

        The log probability should be overridden with numerically stable
        variants whenever possible.

        Arguments:
            X: `np.ndarray` of shape (n, 1).

        Returns:
            np.ndarray

        """
        return np.log(self.probability_density(X))

    def pdf(self, X):
        """Shortcut to :meth:`probability_density`."""
        return self.probability_density(X)

    def cumulative_distribution(self, X):
        """Compute the cumulative distribution function for the copula, :math:`C(u, v)`.

        Args:
            X(np.ndarray):

        Returns:
            numpy.array: cumulative probability

        """
        raise NotImplementedError

    def cdf(self, X):
        """Shortcut to :meth:`cumulative_distribution`."""
        return self.cumulative_distribution(X)

    def percent_point(self, y, V):
        """Compute the inverse of conditional cumulative distribution :math:`C(u|v)^{-1}`.

        Args:
            y: `np.ndarray` value of :math:`C(u|v)`.
            v: `np.ndarray` given value of v.
        """
        self.check_fit()
        result = []
        for _y, _v in zip(y, V):

            def f(u):
                return np.ravel(self.partial_derivative_scalar(u, _v) - _y)[0]

            minimum = brentq(f, EPSILON, 1.0)
            if isinstance(minimum, np.ndarray):
                minimum = minimum[0]

            result.append(minimum)

        return np.array(result)

    def ppf(self, y, V):
        """Shortcut to :meth:`percent_point`."""
        return self.percent_point(y, V)

    def partial_derivative(self, X):
        r"""Compute partial derivative of cumulative distribution.

        The partial derivative of the copula(CDF) is the conditional CDF.

         .. math:: F(v|u) = \frac{\partial C(u,v)}{\partial u}

        The base class provides a finite difference approximation of the
        partial derivative of the CDF with respect to u.

        Args:
            X(np.ndarray)
            y(float)

        Returns:
            np.ndarray

        """
        delta = -2 * (X[:, 1] > 0.5) + 1
        delta = 0.0001 * delta
        X_prime = X.copy()
        X_prime[:, 1] += delta
        f = self.cumulative_distribution(X)
        f_prime = self.cumulative_distribution(X_prime)
        return (f_prime - f) / delta

    def partial_derivative_scalar(self, U, V):
        """Compute partial derivative :math:`C(u|v)` of cumulative density of single values."""
        self.check_fit()

        X = np.column_stack((U, V))
        return self.partial_derivative(X)

    def set_random_state(self, random_state):
        """Set the random state.

        Args:
            random_state (int, np.random.RandomState, or None): Seed or RandomState
                for the random generator.
        """
        self.random_state = validate_random_state(random_state)

    @random_state
    def sample(self, n_samples):
        """Generate specified `n_samples` of new data from model.

        The sampled are generated using the inverse transform method `v~U[0,1],v~C^-1(u|v)`

        Args:
            n_samples (int): amount of samples to create.

        Returns:
            np.ndarray: Array of length `n_samples` with generated data from the model.

        """
        self.check_fit()
        if self.tau > 1 or self.tau < -1:
            raise ValueError('The range for correlation measure is [-1,1].')

        v = np.random.uniform(0, 1, n_samples)
        c = np.random.uniform(0, 1, n_samples)

        u = self.percent_point(c, v)
        return np.column_stack((u, v))

    def compute_theta(self):
        """Compute theta parameter using Kendall's tau."""
        raise NotImplementedError

    @classmethod
    def select_copula(cls, X):
        r"""Select best copula function based on likelihood.

        Given out candidate copulas the procedure proposed for selecting the one
        that best fit to a dataset of pairs :math:`\{(u_j, v_j )\}, j=1,2,...n` , is as follows:

        1. Estimate the most likely parameter :math:`\theta` of each copula candidate for the given
           dataset.

        2. Construct :math:`R(z|\theta)`. Calculate the area under the tail for each of the copula
           candidates.

        3. Compare the areas: :math:`a_u` achieved using empirical copula against the ones
           achieved for the copula candidates. Score the outcome of the comparison from 3 (best)
           down to 1 (worst).

        4. Proceed as in steps 2- 3 with the lower tail and function :math:`L`.

        5. Finally the sum of empirical upper and lower tail functions is compared against
           :math:`R + L`. Scores of the three comparisons are summed and the candidate with the
           highest value is selected.

        Args:
            X(np.ndarray): Matrix of shape (n,2).

        Returns:
            copula: Best copula that fits for it.

        """
        from copulas.bivariate import select_copula  # noqa

        warnings.warn(
            '`Bivariate.select_copula` has been deprecated and will be removed in a later '
            'release. Please use `copulas.bivariate.select_copula` instead',
            DeprecationWarning,
        )
        return select_copula(X)

    def save(self, filename):
        """Save the internal state of a copula in the specified filename.

        Args:
            filename(str): Path to save.

        Returns:
            None

        """
        content = self.to_dict()
        with open(filename, 'w') as f:
            json.dump(content, f)

    @classmethod
    def load(cls, copula_path):
        """Create a new instance from a file.

        Args:
            copula_path(str): Path to file with the serialized copula.

        Returns:
            Bivariate: Instance with the parameters stored in the file.

        """
        with open(copula_path) as f:
            copula_dict = json.load(f)

        return cls.from_dict(copula_dict)
