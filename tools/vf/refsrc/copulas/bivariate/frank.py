"""Frank module."""

import sys

import numpy as np
import scipy.integrate as integrate
from scipy.optimize import least_squares

from copulas.bivariate.base import Bivariate, CopulaTypes
from copulas.bivariate.utils import split_matrix
from copulas.utils import EPSILON

MIN_FLOAT_LOG = np.log(sys.float_info.min)
MAX_FLOAT_LOG = np.log(sys.float_info.max)


class Frank(Bivariate):
    """Class for Frank copula model."""

    copula_type = CopulaTypes.FRANK
    theta_interval = [-float('inf'), float('inf')]
    invalid_thetas = [0]

    def generator(self, t):
        """Return the generator function."""
        a = (np.exp(-self.theta * t) - 1) / (np.exp(-self.theta) - 1)
        return -np.log(a)

    def _g(self, z):
        r"""Assist in solving the Frank copula.

        This functions encapsulates :math:`g(z) = e^{-\theta z} - 1` used on Frank copulas.

        Argument:
            z: np.ndarray

        Returns:
            np.ndarray

        """
        return np.exp(-self.theta * z) - 1

    def probability_density(self, X):
        r"""Compute probability density function for given copula family.

        The probability density(PDF) for the Frank family of copulas correspond to the formula:

        .. math:: c(U,V) = \frac{\partial^2 C(u,v)}{\partial v \partial u} =
             \frac{-\theta g(1)(1 + g(u + v))}{(g(u) g(v) + g(1)) ^ 2}

        Where the g function is defined by:

        .. math:: g(x) = e^{-\theta x} - 1

        Args:
            X: `np.ndarray`

        Returns:
            np.array: probability density

        """
        self.check_fit()

        U, V = split_matrix(X)

        if self.theta == 0:
            return U * V

        else:
            num = (-self.theta * self._g(1)) * np.exp(-self.theta * (U + V))
            aux = self._g(U) * self._g(V) + self._g(1)
            den = np.power(aux, 2)
            return num / den

    def cumulative_distribution(self, X):
        r"""Compute the cumulative distribution function for the Frank copula.

        The cumulative density(cdf), or distribution function for the Frank family of copulas
        correspond to the formula:

        .. math:: C(u,v) =  −\frac{\ln({\frac{1 + g(u) g(v)}{g(1)}})}{\theta}


        Args:
            X: `np.ndarray`

        Returns:
            np.array: cumulative distribution

        """
        self.check_fit()

        U, V = split_matrix(X)

        num = (np.exp(-self.theta * U) - 1) * (np.exp(-self.theta * V) - 1)
        den = np.exp(-self.theta) - 1

        return -1.0 / self.theta * np.log(1 + num / den)

    def percent_point(self, y, V):
        """Compute the inverse of conditional cumulative distribution :math:`C(u|v)^{-1}`.

        Args:
            y: `np.ndarray` value of :math:`C(u|v)`.
            v: `np.ndarray` given value of v.
        """
        self.check_fit()

        if self.theta == 0:
            return V

        else:
            return super().percent_point(y, V)

    def partial_derivative(self, X):
        r"""Compute partial derivative of cumulative distribution.

        The partial derivative of the copula(CDF) is the conditional CDF.

        .. math:: F(v|u) = \frac{\partial}{\partial u}C(u,v) =
            \frac{g(u)g(v) + g(v)}{g(u)g(v) + g(1)}

        Args:
            X (np.ndarray)
            y (float)

        Returns:
            np.ndarray

        """
        self.check_fit()

        U, V = split_matrix(X)

        if self.theta == 0:
            return V

        else:
            num = self._g(U) * self._g(V) + self._g(U)
            den = self._g(U) * self._g(V) + self._g(1)
            return num / den

    def compute_theta(self):
        r"""Compute theta parameter using Kendall's tau.

        On Frank copula, the relationship between tau and theta is defined by:

        .. math:: \tau = 1 − \frac{4}{\theta} + \frac{4}{\theta^2}\int_0^\theta \!
            \frac{t}{e^t -1} \mathrm{d}t.

        In order to solve it, we can simplify it as

        .. math:: 0 = 1 + \frac{4}{\theta}(D_1(\theta) - 1) - \tau

        where the function D is the Debye function of first order, defined as:

        .. math:: D_1(x) = \frac{1}{x}\int_0^x\frac{t}{e^t -1} \mathrm{d}t.

        """
        result = least_squares(self._tau_to_theta, 1, bounds=(MIN_FLOAT_LOG, MAX_FLOAT_LOG))
        return result.x[0]

    def _tau_to_theta(self, alpha):
        """Relationship between tau and theta as a solvable equation."""
        alpha = np.ravel(alpha)[0]

        def debye(t):
            return t / (np.exp(t) - 1)

        debye_value = integrate.quad(debye, EPSILON, alpha)[0] / alpha
        return 4 * (debye_value - 1) / alpha + 1 - self.tau
