"""Gumbel module."""

import numpy as np

from copulas.bivariate.base import Bivariate, CopulaTypes
from copulas.bivariate.utils import split_matrix


class Gumbel(Bivariate):
    """Class for clayton copula model."""

    copula_type = CopulaTypes.GUMBEL
    theta_interval = [1, float('inf')]
    invalid_thetas = []

    def generator(self, t):
        """Return the generator function."""
        return np.power(-np.log(t), self.theta)

    def probability_density(self, X):
        r"""Compute probability density function for given copula family.

        The probability density(PDF) for the Gumbel family of copulas correspond to the formula:

        .. math::

            \begin{align}
                c(U,V)
                    &= \frac{\partial^2 C(u,v)}{\partial v \partial u}
                    &= \frac{C(u,v)}{uv} \frac{((-\ln u)^{\theta}  # noqa: JS101
                    + (-\ln v)^{\theta})^{\frac{2}  # noqa: JS101
                {\theta} - 2 }}{(\ln u \ln v)^{1 - \theta}}  # noqa: JS101
                ( 1 + (\theta-1) \big((-\ln u)^\theta
                + (-\ln v)^\theta\big)^{-1/\theta})
            \end{align}

        Args:
            X (numpy.ndarray)

        Returns:
            numpy.ndarray

        """
        self.check_fit()

        U, V = split_matrix(X)

        if self.theta == 1:
            return np.ones(len(U))

        else:
            a = np.power(U * V, -1)
            tmp = np.power(-np.log(U), self.theta) + np.power(-np.log(V), self.theta)
            b = np.power(tmp, -2 + 2.0 / self.theta)
            c = np.power(np.log(U) * np.log(V), self.theta - 1)
            d = 1 + (self.theta - 1) * np.power(tmp, -1.0 / self.theta)
            return self.cumulative_distribution(X) * a * b * c * d

    def cumulative_distribution(self, X):
        r"""Compute the cumulative distribution function for the Gumbel copula.

        The cumulative density(cdf), or distribution function for the Gumbel family of copulas
        correspond to the formula:

        .. math:: C(u,v) = e^{-((-\ln u)^{\theta} + (-\ln v)^{\theta})^{\frac{1}{\theta}}}

        Args:
            X (np.ndarray)

        Returns:
            np.ndarray: cumulative probability for the given datapoints, cdf(X).

        """
        self.check_fit()

        U, V = split_matrix(X)

        if self.theta == 1:
            return U * V

        else:
            h = np.power(-np.log(U), self.theta) + np.power(-np.log(V), self.theta)
            h = -np.power(h, 1.0 / self.theta)
            cdfs = np.exp(h)
            return cdfs

    def percent_point(self, y, V):
        """Compute the inverse of conditional cumulative distribution :math:`C(u|v)^{-1}`.

        Args:
            y (np.ndarray): value of :math:`C(u|v)`.
            v (np.ndarray): given value of v.

        """
        self.check_fit()

        if self.theta == 1:
            return y

        else:
            return super().percent_point(y, V)

    def partial_derivative(self, X):
        r"""Compute partial derivative of cumulative distribution.

        The partial derivative of the copula(CDF) is the conditional CDF.

        .. math:: F(v|u) = \frac{\partial C(u,v)}{\partial u} =
            C(u,v)\frac{((-\ln u)^{\theta} + (-\ln v)^{\theta})^{\frac{1}{\theta} - 1}}
            {\theta(- \ln u)^{1 -\theta}}

        Args:
            X (np.ndarray)
            y (float)

        Returns:
            numpy.ndarray

        """
        self.check_fit()

        U, V = split_matrix(X)

        if self.theta == 1:
            return U

        else:
            t1 = np.power(-np.log(U), self.theta)
            t2 = np.power(-np.log(V), self.theta)
            p1 = self.cumulative_distribution(X)
            p2 = np.power(t1 + t2, -1 + 1.0 / self.theta)
            p3 = np.power(-np.log(V), self.theta - 1)
            return p1 * p2 * p3 / V

    def compute_theta(self):
        r"""Compute theta parameter using Kendall's tau.

        On Gumbel copula :math:`\tau` is defined as :math:`τ = \frac{θ−1}{θ}`
        that we solve as :math:`θ = \frac{1}{1-τ}`
        """
        if self.tau == 1:
            raise ValueError("Tau value can't be 1")

        return 1 / (1 - self.tau)
