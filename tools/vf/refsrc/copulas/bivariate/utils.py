"""Utilities for bivariate copulas."""

import numpy as np


def split_matrix(X):
    """Split an (n,2) numpy.array into two vectors.

    Args:
        X(numpy.array): Matrix of shape (n,2)

    Returns:
        tuple[numpy.array]: Both of shape (n,)

    """
    if len(X):
        return X[:, 0], X[:, 1]

    return np.array([]), np.array([])
