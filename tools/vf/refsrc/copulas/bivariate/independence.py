"""Independence module."""

import numpy as np

from copulas.bivariate.base import Bivariate, CopulaTypes
from copulas.bivariate.utils import split_matrix


class Independence(Bivariate):
    """This class represent the copula for two independent variables."""

    copula_type = CopulaTypes.INDEPENDENCE

    def fit(self, X):
        """Fit the copula to the given data.

        Args:
            X (numpy.array): Probabilites in a matrix shaped (n, 2)

        Returns:
            None

        """

    def generator(self, t):
        """Compute the generator function for the Copula.

        The generator function is a function f(t), such that an archimedian copula can be
        defined as

        C(u1, ..., uN) = f(f^-1(u1), ..., f^-1(uN)).

        Args:
            t(numpy.array)

        Returns:
            np.array

        """
        return np.log(t)

    def probability_density(self, X):
        """Compute the probability density for the independence copula."""
        return np.all((0.0 <= X) & (X <= 1.0), axis=1).astype(float)

    def cumulative_distribution(self, X):
        """Compute the cumulative distribution of the independence bivariate copula is the product.

        Args:
            X(numpy.array): Matrix of shape (n,2), whose values are in [0, 1]

        Returns:
            numpy.array: Cumulative distribution values of given input.

        """
        U, V = split_matrix(X)
        return U * V

    def partial_derivative(self, X):
        """Compute the conditional probability of one event conditiones to the other.

        In the case of the independence copula, due to C(u,v) = u*v, we have that
        F(u|v) = dC/du = v.

        Args:
            X()

        """
        _, V = split_matrix(X)
        return V

    def percent_point(self, y, V):
        """Compute the inverse of conditional cumulative distribution :math:`F(u|v)^-1`.

        Args:
            y: `np.ndarray` value of :math:`F(u|v)`.
            v: `np.ndarray` given value of v.

        """
        self.check_fit()
        return y
