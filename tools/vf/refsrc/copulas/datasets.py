"""Sample datasets for the Copulas library."""

import numpy as np
import pandas as pd
from scipy import stats

from copulas.utils import set_random_state, validate_random_state


def _dummy_fn(state):
    pass


def sample_bivariate_age_income(size=1000, seed=42):
    """Sample from a bivariate toy dataset.

    This dataset contains two columns which correspond to the simulated age and
    income which are positively correlated with outliers.

    Args:
        size (int):
            Amount of samples to generate. Defaults to 1000.
        seed (int):
            Random seed to use. Defaults to 42.

    Returns:
        pandas.DataFrame:
            DataFrame with two columns, ``age`` and ``income``.
    """
    with set_random_state(validate_random_state(seed), _dummy_fn):
        age = stats.beta.rvs(a=2.0, b=6.0, loc=18, scale=100, size=size)
        income = np.log(age) * 100
        income += np.random.normal(loc=np.log(age) / 100, scale=10, size=size)
        income[np.random.randint(0, 10, size=size) == 0] /= 1000

    return pd.DataFrame({'age': age, 'income': income})


def sample_trivariate_xyz(size=1000, seed=42):
    """Sample from three dimensional toy dataset.

    The output is a DataFrame containing three columns:

    * ``x``: Beta distribution with a=0.1 and b=0.1
    * ``y``: Beta distribution with a=0.1 and b=0.5
    * ``z``: Normal distribution + 10 times ``y``

    Args:
        size (int):
            Amount of samples to generate. Defaults to 1000.
        seed (int):
            Random seed to use. Defaults to 42.

    Returns:
        pandas.DataFrame:
            DataFrame with three columns, ``x``, ``y`` and ``z``.
    """
    with set_random_state(validate_random_state(seed), _dummy_fn):
        x = stats.beta.rvs(a=0.1, b=0.1, size=size)
        y = stats.beta.rvs(a=0.1, b=0.5, size=size)
        return pd.DataFrame({'x': x, 'y': y, 'z': np.random.normal(size=size) + y * 10})


def sample_univariate_bernoulli(size=1000, seed=42):
    """Sample from a Bernoulli distribution with p=0.3.

    The distribution is built by sampling a uniform random and then setting
    0 or 1 depending on whether the value is above or below 0.3.

    Args:
        size (int):
            Amount of samples to generate. Defaults to 1000.
        seed (int):
            Random seed to use. Defaults to 42.

    Returns:
        pandas.Series:
            Series with the sampled values.
    """
    with set_random_state(validate_random_state(seed), _dummy_fn):
        return pd.Series(np.random.random(size=size) < 0.3).astype(float)


def sample_univariate_bimodal(size=1000, seed=42):
    """Sample from a bimodal distribution which mixes two Gaussians at 0.0 and 10.0 with stdev=1.

    The distribution is built by sampling a standard normal and a normal with mean ``10``
    and then selecting one or the other based on a bernoulli distribution.

    Args:
        size (int):
            Amount of samples to generate. Defaults to 1000.
        seed (int):
            Random seed to use. Defaults to 42.

    Returns:
        pandas.Series:
            Series with the sampled values.
    """
    with set_random_state(validate_random_state(seed), _dummy_fn):
        bernoulli = sample_univariate_bernoulli(size, seed)
        mode1 = np.random.normal(size=size) * bernoulli
        mode2 = np.random.normal(size=size, loc=10) * (1.0 - bernoulli)

        return pd.Series(mode1 + mode2)


def sample_univariate_uniform(size=1000, seed=42):
    """Sample from a uniform distribution in [-1.0, 3.0].

    Args:
        size (int):
            Amount of samples to generate. Defaults to 1000.
        seed (int):
            Random seed to use. Defaults to 42.

    Returns:
        pandas.Series:
            Series with the sampled values.
    """
    with set_random_state(validate_random_state(seed), _dummy_fn):
        return pd.Series(4.0 * np.random.random(size=size) - 1.0)


def sample_univariate_normal(size=1000, seed=42):
    """Sample from a normal distribution with mean 1 and stdev 1.

    Args:
        size (int):
            Amount of samples to generate. Defaults to 1000.
        seed (int):
            Random seed to use. Defaults to 42.

    Returns:
        pandas.Series:
            Series with the sampled values.
    """
    with set_random_state(validate_random_state(seed), _dummy_fn):
        return pd.Series(np.random.normal(size=size, loc=1.0))


def sample_univariate_degenerate(size=1000, seed=42):
    """Sample from a degenerate distribution that only takes one random value.

    Args:
        size (int):
            Amount of samples to generate. Defaults to 1000.
        seed (int):
            Random seed to use. Defaults to 42.

    Returns:
        pandas.Series:
            Series with the sampled values.
    """
    with set_random_state(validate_random_state(seed), _dummy_fn):
        return pd.Series(np.full(size, np.random.random()))


def sample_univariate_exponential(size=1000, seed=42):
    """Sample from an exponential distribution at 3.0 with rate 1.0.

    Args:
        size (int):
            Amount of samples to generate. Defaults to 1000.
        seed (int):
            Random seed to use. Defaults to 42.

    Returns:
        pandas.Series:
            Series with the sampled values.
    """
    with set_random_state(validate_random_state(seed), _dummy_fn):
        return pd.Series(np.random.exponential(size=size) + 3.0)


def sample_univariate_beta(size=1000, seed=42):
    """Sample from a beta distribution with a=3 and b=1 and loc=4.

    Args:
        size (int):
            Amount of samples to generate. Defaults to 1000.
        seed (int):
            Random seed to use. Defaults to 42.

    Returns:
        pandas.Series:
            Series with the sampled values.
    """
    with set_random_state(validate_random_state(seed), _dummy_fn):
        return pd.Series(stats.beta.rvs(a=3, b=1, loc=4, size=size))


def sample_univariates(size=1000, seed=42):
    """Sample from a list of univariate distributions.

    Args:
        size (int):
            Amount of samples to generate. Defaults to 1000.
        seed (int):
            Random seed to use. Defaults to 42.

    Returns:
        pandas.DataFrame:
            DataFrame with the sampled distributions.
    """
    return pd.DataFrame({
        'bernoulli': sample_univariate_bernoulli(size, seed),
        'bimodal': sample_univariate_bimodal(size, seed),
        'uniform': sample_univariate_uniform(size, seed),
        'normal': sample_univariate_normal(size, seed),
        'degenerate': sample_univariate_degenerate(size, seed),
        'exponential': sample_univariate_exponential(size, seed),
        'beta': sample_univariate_beta(size, seed),
    })
