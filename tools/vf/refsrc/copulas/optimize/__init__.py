"""Copulas optimization functions."""

import numpy as np


def bisect(f, xmin, xmax, tol=1e-8, maxiter=50):
    """Bisection method for finding roots.

    This method implements a simple vectorized routine for identifying
    the root (of a monotonically increasing function) given a bracketing
    interval.

    Arguments:
        f (Callable):
            A function which takes as input a vector x and returns a
            vector with the same number of dimensions.
        xmin (np.ndarray):
            The minimum value for x such that f(x) <= 0.
        xmax (np.ndarray):
            The maximum value for x such that f(x) >= 0.

    Returns:
        numpy.ndarray:
            The value of x such that f(x) is close to 0.
    """
    xmin = np.array(xmin, dtype=float)
    xmax = np.array(xmax, dtype=float)
    assert (f(xmin) <= 0.0).all()
    assert (f(xmax) >= 0.0).all()

    for _ in range(maxiter):
        guess = (xmin + xmax) / 2.0
        fguess = f(guess)
        xmin[fguess <= 0] = guess[fguess <= 0]
        xmax[fguess >= 0] = guess[fguess >= 0]
        if (xmax - xmin).max() < tol:
            break

    return (xmin + xmax) / 2.0


def chandrupatla(f, xmin, xmax, eps_m=None, eps_a=None, maxiter=50):
    """Chandrupatla's algorithm.

    This is adapted from [1] which implements Chandrupatla's algorithm [2]
    which starts from a bracketing interval and, conditionally, swaps between
    bisection and inverse quadratic interpolation.

    [1] https://github.com/scipy/scipy/issues/7242#issuecomment-290548427
    [2] https://books.google.com/books?id=cC-8BAAAQBAJ&pg=PA95

    Arguments:
        f (Callable):
            A function which takes as input a vector x and returns a
            vector with the same number of dimensions.
        xmin (np.ndarray):
            The minimum value for x such that f(x) <= 0.
        xmax (np.ndarray):
            The maximum value for x such that f(x) >= 0.

    Returns:
        numpy.ndarray:
            The value of x such that f(x) is close to 0.
    """
    # Initialization
    a = xmax
    b = xmin
    fa = f(a)
    fb = f(b)

    # Make sure we know the size of the result
    shape = np.shape(fa)
    assert shape == np.shape(fb)

    fc = fa
    c = a

    # Make sure we are bracketing a root in each case
    assert (np.sign(fa) * np.sign(fb) <= 0).all()
    t = 0.5
    # Initialize an array of False,
    # determines whether we should do inverse quadratic interpolation
    iqi = np.zeros(shape, dtype=bool)

    # jms: some guesses for default values of the eps_m and eps_a settings
    # based on machine precision... not sure exactly what to do here
    eps = np.finfo(float).eps
    if eps_m is None:
        eps_m = eps
    if eps_a is None:
        eps_a = 2 * eps

    iterations = 0
    terminate = False

    while maxiter > 0:
        maxiter -= 1
        # use t to linearly interpolate between a and b,
        # and evaluate this function as our newest estimate xt
        xt = np.clip(a + t * (b - a), xmin, xmax)
        ft = f(xt)

        # update our history of the last few points so that
        # - a is the newest estimate (we're going to update it from xt)
        # - c and b get the preceding two estimates
        # - a and b maintain opposite signs for f(a) and f(b)
        samesign = np.sign(ft) == np.sign(fa)
        c = np.choose(samesign, [b, a])
        b = np.choose(samesign, [a, b])
        fc = np.choose(samesign, [fb, fa])
        fb = np.choose(samesign, [fa, fb])
        a = xt
        fa = ft

        # set xm so that f(xm) is the minimum magnitude of f(a) and f(b)
        fa_is_smaller = np.abs(fa) < np.abs(fb)
        xm = np.choose(fa_is_smaller, [b, a])
        fm = np.choose(fa_is_smaller, [fb, fa])

        tol = 2 * eps_m * np.abs(xm) + eps_a
        tlim = tol / np.abs(b - c)
        terminate = np.logical_or(terminate, np.logical_or(fm == 0, tlim > 0.5))

        if np.all(terminate):
            break
        iterations += 1 - terminate

        # Figure out values xi and phi
        # to determine which method we should use next
        xi = (a - b) / (c - b)
        phi = (fa - fb) / (fc - fb)
        iqi = np.logical_and(phi**2 < xi, (1 - phi) ** 2 < 1 - xi)

        if not shape:
            # scalar case
            if iqi:
                # inverse quadratic interpolation
                eq1 = fa / (fb - fa) * fc / (fb - fc)
                eq2 = (c - a) / (b - a) * fa / (fc - fa) * fb / (fc - fb)
                t = eq1 + eq2
            else:
                # bisection
                t = 0.5
        else:
            # array case
            t = np.full(shape, 0.5)
            a2, b2, c2, fa2, fb2, fc2 = a[iqi], b[iqi], c[iqi], fa[iqi], fb[iqi], fc[iqi]
            t[iqi] = fa2 / (fb2 - fa2) * fc2 / (fb2 - fc2) + (c2 - a2) / (b2 - a2) * fa2 / (
                fc2 - fa2
            ) * fb2 / (fc2 - fb2)

        # limit to the range (tlim, 1-tlim)
        t = np.minimum(1 - tlim, np.maximum(tlim, t))

    # done!
    return xm
