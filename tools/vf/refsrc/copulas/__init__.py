"""Top-level package for Copulas."""

__author__ = 'DataCebo, Inc.'
__email__ = 'info@sdv.dev'
__version__ = '0.12.2.dev0'

import sys
import warnings
from copy import deepcopy
from importlib.metadata import entry_points
from operator import attrgetter
from types import ModuleType


def _get_addon_target(addon_path_name):
    """Find the target object for the add-on.

    Args:
        addon_path_name (str):
            The add-on's name. The add-on's name should be the full path of valid Python
            identifiers (i.e. importable.module:object.attr).

    Returns:
        tuple:
            * object:
                The base module or object the add-on should be added to.
            * str:
                The name the add-on should be added to under the module or object.
    """
    module_path, _, object_path = addon_path_name.partition(':')
    module_path = module_path.split('.')

    if module_path[0] != __name__:
        msg = f"expected base module to be '{__name__}', found '{module_path[0]}'"
        raise AttributeError(msg)

    target_base = sys.modules[__name__]
    for submodule in module_path[1:-1]:
        target_base = getattr(target_base, submodule)

    addon_name = module_path[-1]
    if object_path:
        if len(module_path) > 1 and not hasattr(target_base, module_path[-1]):
            msg = f"cannot add '{object_path}' to unknown submodule '{'.'.join(module_path)}'"
            raise AttributeError(msg)

        if len(module_path) > 1:
            target_base = getattr(target_base, module_path[-1])

        split_object = object_path.split('.')
        addon_name = split_object[-1]

        if len(split_object) > 1:
            target_base = attrgetter('.'.join(split_object[:-1]))(target_base)

    return target_base, addon_name


def _find_addons():
    """Find and load all copulas add-ons."""
    group = 'copulas_modules'
    try:
        eps = entry_points(group=group)
    except TypeError:
        # Load-time selection requires Python >= 3.10 or importlib_metadata >= 3.6
        eps = entry_points().get(group, [])

    for entry_point in eps:
        try:
            addon = entry_point.load()
        except Exception as e:  # pylint: disable=broad-exception-caught
            msg = f'Failed to load "{entry_point.name}" from "{entry_point.value}" with error:\n{e}'
            warnings.warn(msg)
            continue

        try:
            addon_target, addon_name = _get_addon_target(entry_point.name)
        except AttributeError as error:
            msg = f"Failed to set '{entry_point.name}': {error}."
            warnings.warn(msg)
            continue

        if isinstance(addon, ModuleType):
            addon_module_name = f'{addon_target.__name__}.{addon_name}'
            if addon_module_name not in sys.modules:
                sys.modules[addon_module_name] = addon

        setattr(addon_target, addon_name, addon)


_find_addons()
