"""Univariate copulas module."""

from copulas.univariate.base import BoundedType, ParametricType, Univariate
from copulas.univariate.beta import BetaUnivariate
from copulas.univariate.gamma import GammaUnivariate
from copulas.univariate.gaussian import GaussianUnivariate
from copulas.univariate.gaussian_kde import GaussianKDE
from copulas.univariate.log_laplace import LogLaplace
from copulas.univariate.student_t import StudentTUnivariate
from copulas.univariate.truncated_gaussian import TruncatedGaussian
from copulas.univariate.uniform import UniformUnivariate

__all__ = (
    'BetaUnivariate',
    'GammaUnivariate',
    'GaussianKDE',
    'GaussianUnivariate',
    'TruncatedGaussian',
    'StudentTUnivariate',
    'Univariate',
    'ParametricType',
    'BoundedType',
    'UniformUnivariate',
    'LogLaplace',
)
