"""TruncatedGaussian module."""

import warnings

import numpy as np
from scipy.optimize import fmin_slsqp
from scipy.stats import truncnorm

from copulas.univariate.base import BoundedType, ParametricType, ScipyModel
from copulas.utils import EPSILON, store_args, validate_random_state


class TruncatedGaussian(ScipyModel):
    """Wrapper around scipy.stats.truncnorm.

    Documentation: https://docs.scipy.org/doc/scipy/reference/generated/scipy.stats.truncnorm.html
    """

    PARAMETRIC = ParametricType.PARAMETRIC
    BOUNDED = BoundedType.BOUNDED
    MODEL_CLASS = truncnorm

    @store_args
    def __init__(self, minimum=None, maximum=None, random_state=None):
        self.random_state = validate_random_state(random_state)
        self.min = minimum
        self.max = maximum

    def _fit_constant(self, X):
        constant = np.unique(X)[0]
        self._params = {'a': constant, 'b': constant, 'loc': constant, 'scale': 0.0}

    def _fit(self, X):
        minimum = X.min() - EPSILON if self.min is None else self.min
        maximum = X.max() + EPSILON if self.max is None else self.max

        def nnlf(params):
            loc, scale = params
            a = (minimum - loc) / scale
            b = (maximum - loc) / scale
            return truncnorm.nnlf((a, b, loc, scale), X)

        initial_params = X.mean(), X.std()
        with warnings.catch_warnings():
            warnings.simplefilter('ignore', category=RuntimeWarning)
            optimal = fmin_slsqp(
                nnlf,
                initial_params,
                iprint=False,
                bounds=[(minimum, maximum), (0.0, (maximum - minimum) ** 2)],
            )

        loc, scale = optimal
        a = (minimum - loc) / scale
        b = (maximum - loc) / scale

        self._params = {'a': a, 'b': b, 'loc': loc, 'scale': scale}

    def _is_constant(self):
        return self._params['a'] == self._params['b']

    def _extract_constant(self):
        return self._params['loc']
