"""StudentTUnivariate module."""

from scipy.stats import t

from copulas.univariate.base import BoundedType, ParametricType, ScipyModel


class StudentTUnivariate(ScipyModel):
    """Wrapper around scipy.stats.t.

    Documentation: https://docs.scipy.org/doc/scipy/reference/generated/scipy.stats.t.html
    """

    PARAMETRIC = ParametricType.PARAMETRIC
    BOUNDED = BoundedType.UNBOUNDED

    MODEL_CLASS = t

    def _fit_constant(self, X):
        self._fit(X)
        self._params['scale'] = 0

    def _fit(self, X):
        dataframe, loc, scale = t.fit(X)
        self._params = {'df': dataframe, 'loc': loc, 'scale': scale}

    def _is_constant(self):
        return self._params['scale'] == 0

    def _extract_constant(self):
        return self._params['loc']
