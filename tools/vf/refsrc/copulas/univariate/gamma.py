"""GammaUnivariate module."""

import numpy as np
from scipy.stats import gamma

from copulas.univariate.base import BoundedType, ParametricType, ScipyModel


class GammaUnivariate(ScipyModel):
    """Wrapper around scipy.stats.gamma.

    Documentation: https://docs.scipy.org/doc/scipy/reference/generated/scipy.stats.gamma.html
    """

    PARAMETRIC = ParametricType.PARAMETRIC
    BOUNDED = BoundedType.SEMI_BOUNDED
    MODEL_CLASS = gamma

    def _fit_constant(self, X):
        self._params = {
            'a': 0.0,
            'loc': np.unique(X)[0],
            'scale': 0.0,
        }

    def _fit(self, X):
        a, loc, scale = gamma.fit(X)
        self._params = {
            'a': a,
            'loc': loc,
            'scale': scale,
        }

    def _is_constant(self):
        return self._params['scale'] == 0

    def _extract_constant(self):
        return self._params['loc']
