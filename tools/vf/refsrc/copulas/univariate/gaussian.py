"""GaussianUnivariate module."""

import numpy as np
from scipy.stats import norm

from copulas.univariate.base import BoundedType, ParametricType, ScipyModel


class GaussianUnivariate(ScipyModel):
    """Gaussian univariate model."""

    PARAMETRIC = ParametricType.PARAMETRIC
    BOUNDED = BoundedType.UNBOUNDED

    MODEL_CLASS = norm

    def _fit_constant(self, X):
        self._params = {'loc': np.unique(X)[0], 'scale': 0}

    def _fit(self, X):
        self._params = {'loc': np.mean(X), 'scale': np.std(X)}

    def _is_constant(self):
        return self._params['scale'] == 0

    def _extract_constant(self):
        return self._params['loc']
