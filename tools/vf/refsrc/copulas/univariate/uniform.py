"""UniformUnivariate module."""

import numpy as np
from scipy.stats import uniform

from copulas.univariate.base import BoundedType, ParametricType, ScipyModel


class UniformUnivariate(ScipyModel):
    """Uniform univariate model."""

    PARAMETRIC = ParametricType.PARAMETRIC
    BOUNDED = BoundedType.BOUNDED

    MODEL_CLASS = uniform

    def _fit_constant(self, X):
        self._params = {'loc': np.min(X), 'scale': np.max(X) - np.min(X)}

    def _fit(self, X):
        self._params = {'loc': np.min(X), 'scale': np.max(X) - np.min(X)}

    def _is_constant(self):
        return self._params['scale'] == 0

    def _extract_constant(self):
        return self._params['loc']
