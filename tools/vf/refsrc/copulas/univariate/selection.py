"""Univariate selection function."""

import numpy as np
from scipy.stats import kstest

from copulas.utils import get_instance


def select_univariate(X, candidates):
    """Select the best univariate class for this data.

    Args:
        X (pandas.DataFrame):
            Data for which be best univariate must be found.
        candidates (list[Univariate]):
            List of Univariate subclasses (or instances of those) to choose from.

    Returns:
        Univariate:
            Instance of the selected candidate.
    """
    best_ks = np.inf
    best_model = None
    for model in candidates:
        try:
            instance = get_instance(model)
            instance.fit(X)
            ks, _ = kstest(X, instance.cdf)
            if ks < best_ks:
                best_ks = ks
                best_model = model
        except Exception:
            # Distribution not supported
            pass

    return get_instance(best_model)
