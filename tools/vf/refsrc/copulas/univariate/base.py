"""Base Univariate class."""

import pickle
from abc import ABC
from enum import Enum

import numpy as np

from copulas.errors import NotFittedError
from copulas.univariate.selection import select_univariate
from copulas.utils import (
    get_instance,
    get_qualified_name,
    random_state,
    store_args,
    validate_random_state,
)


class ParametricType(Enum):
    """Parametric Enum."""

    NON_PARAMETRIC = 0
    PARAMETRIC = 1


class BoundedType(Enum):
    """Bounded Enum."""

    UNBOUNDED = 0
    SEMI_BOUNDED = 1
    BOUNDED = 2


class Univariate(object):
    """Univariate Distribution.

    Args:
        candidates (list[str or type or Univariate]):
            List of candidates to select the best univariate from.
            It can be a list of strings representing Univariate FQNs,
            or a list of Univariate subclasses or a list of instances.
        parametric (ParametricType):
            If not ``None``, only select subclasses of this type.
            Ignored if ``candidates`` is passed.
        bounded (BoundedType):
            If not ``None``, only select subclasses of this type.
            Ignored if ``candidates`` is passed.
        random_state (int or np.random.RandomState):
            Random seed or RandomState to use.
        selection_sample_size (int):
            Size of the subsample to use for candidate selection.
            If ``None``, all the data is used.
    """

    PARAMETRIC = ParametricType.NON_PARAMETRIC
    BOUNDED = BoundedType.UNBOUNDED

    fitted = False
    _constant_value = None
    _instance = None

    @classmethod
    def _select_candidates(cls, parametric=None, bounded=None):
        """Select which subclasses fulfill the specified constriants.

        Args:
            parametric (ParametricType):
                If not ``None``, only select subclasses of this type.
            bounded (BoundedType):
                If not ``None``, only select subclasses of this type.

        Returns:
            list:
                Selected subclasses.
        """
        candidates = []
        for subclass in cls.__subclasses__():
            candidates.extend(subclass._select_candidates(parametric, bounded))
            if ABC in subclass.__bases__:
                continue
            if parametric is not None and subclass.PARAMETRIC != parametric:
                continue
            if bounded is not None and subclass.BOUNDED != bounded:
                continue

            candidates.append(subclass)

        return candidates

    @store_args
    def __init__(
        self,
        candidates=None,
        parametric=None,
        bounded=None,
        random_state=None,
        selection_sample_size=None,
    ):
        self.candidates = candidates or self._select_candidates(parametric, bounded)
        self.random_state = validate_random_state(random_state)
        self.selection_sample_size = selection_sample_size

    @classmethod
    def __repr__(cls):
        """Return class name."""
        return cls.__name__

    def check_fit(self):
        """Check whether this model has already been fit to a random variable.

        Raise a ``NotFittedError`` if it has not.

        Raises:
            NotFittedError:
                if the model is not fitted.
        """
        if not self.fitted:
            raise NotFittedError('This model is not fitted.')

    def _constant_sample(self, num_samples):
        """Sample values for a constant distribution.

        Args:
            num_samples (int):
                Number of rows to sample

        Returns:
            numpy.ndarray:
                Sampled values. Array of shape (num_samples,).
        """
        return np.full(num_samples, self._constant_value)

    def _constant_cumulative_distribution(self, X):
        """Cumulative distribution for the degenerate case of constant distribution.

        Note that the output of this method will be an array whose unique values are 0 and 1.
        More information can be found here: https://en.wikipedia.org/wiki/Degenerate_distribution

        Arguments:
            X (numpy.ndarray):
                Values for which the cumulative distribution will be computed.
                It must have shape (n, 1).

        Returns:
            numpy.ndarray:
                Cumulative distribution values for points in X.
        """
        result = np.ones(X.shape)
        result[np.nonzero(X < self._constant_value)] = 0

        return result

    def _constant_probability_density(self, X):
        """Probability density for the degenerate case of constant distribution.

        Note that the output of this method will be an array whose unique values are 0 and 1.
        More information can be found here: https://en.wikipedia.org/wiki/Degenerate_distribution

        Arguments:
            X (numpy.ndarray):
                Values for which the probability density will be computed.
                It must have shape (n, 1).

        Returns:
            numpy.ndarray:
                Probability density values for points in X.
        """
        result = np.zeros(X.shape)
        result[np.nonzero(X == self._constant_value)] = 1

        return result

    def _constant_percent_point(self, X):
        """Percent point for the degenerate case of constant distribution.

        Note that the output of this method will be an array whose unique values are `np.nan`
        and self._constant_value.
        More information can be found here: https://en.wikipedia.org/wiki/Degenerate_distribution

        Arguments:
            U (numpy.ndarray):
                Values for which the cumulative distribution will be computed.
                It must have shape (n, 1) and values must be in [0,1].

        Returns:
            numpy.ndarray:
                Inverse cumulative distribution values for points in U.
        """
        return np.full(X.shape, self._constant_value)

    def _replace_constant_methods(self):
        """Replace conventional distribution methods by its constant counterparts."""
        self.cumulative_distribution = self._constant_cumulative_distribution
        self.percent_point = self._constant_percent_point
        self.probability_density = self._constant_probability_density
        self.sample = self._constant_sample

    def _set_constant_value(self, constant_value):
        """Set the distribution up to behave as a degenerate distribution.

        The constant value is stored as ``self._constant_value`` and all
        the methods are replaced by their degenerate counterparts.

        Args:
            constant_value (float):
                Value to set as the constant one.
        """
        self._constant_value = constant_value
        self._replace_constant_methods()

    def _check_constant_value(self, X):
        """Check if a Series or array contains only one unique value.

        If it contains only one value, set the instance up to behave accordingly.

        Args:
            X (numpy.ndarray):
                Data to analyze.

        Returns:
            float:
                Whether the input data had only one value or not.
        """
        uniques = np.unique(X)
        if len(uniques) == 1:
            self._set_constant_value(uniques[0])

            return True

        self._constant_value = None
        for method_name in ('cumulative_distribution', 'percent_point', 'probability_density', 'sample'):
            self.__dict__.pop(method_name, None)

        return False

    def fit(self, X):
        """Fit the model to a random variable.

        Arguments:
            X (numpy.ndarray):
                Values of the random variable. It must have shape (n, 1).
        """
        if self.selection_sample_size and self.selection_sample_size < len(X):
            selection_sample = np.random.choice(X, size=self.selection_sample_size)
        else:
            selection_sample = X

        self._instance = select_univariate(selection_sample, self.candidates)
        self._instance.fit(X)

        self.fitted = True

    def probability_density(self, X):
        """Compute the probability density for each point in X.

        Arguments:
            X (numpy.ndarray):
                Values for which the probability density will be computed.
                It must have shape (n, 1).

        Returns:
            numpy.ndarray:
                Probability density values for points in X.

        Raises:
            NotFittedError:
                if the model is not fitted.
        """
        self.check_fit()
        return self._instance.probability_density(X)

    def log_probability_density(self, X):
        """Compute the log of the probability density for each point in X.

        It should be overridden with numerically stable variants whenever possible.

        Arguments:
            X (numpy.ndarray):
                Values for which the log probability density will be computed.
                It must have shape (n, 1).

        Returns:
            numpy.ndarray:
                Log probability density values for points in X.

        Raises:
            NotFittedError:
                if the model is not fitted.
        """
        self.check_fit()
        if self._instance:
            return self._instance.log_probability_density(X)

        return np.log(self.probability_density(X))

    def pdf(self, X):
        """Compute the probability density for each point in X.

        Arguments:
            X (numpy.ndarray):
                Values for which the probability density will be computed.
                It must have shape (n, 1).

        Returns:
            numpy.ndarray:
                Probability density values for points in X.
        """
        return self.probability_density(X)

    def cumulative_distribution(self, X):
        """Compute the cumulative distribution value for each point in X.

        Arguments:
            X (numpy.ndarray):
                Values for which the cumulative distribution will be computed.
                It must have shape (n, 1).

        Returns:
            numpy.ndarray:
                Cumulative distribution values for points in X.

        Raises:
            NotFittedError:
                if the model is not fitted.
        """
        self.check_fit()
        return self._instance.cumulative_distribution(X)

    def cdf(self, X):
        """Compute the cumulative distribution value for each point in X.

        Arguments:
            X (numpy.ndarray):
                Values for which the cumulative distribution will be computed.
                It must have shape (n, 1).

        Returns:
            numpy.ndarray:
                Cumulative distribution values for points in X.
        """
        return self.cumulative_distribution(X)

    def percent_point(self, U):
        """Compute the inverse cumulative distribution value for each point in U.

        Arguments:
            U (numpy.ndarray):
                Values for which the cumulative distribution will be computed.
                It must have shape (n, 1) and values must be in [0,1].

        Returns:
            numpy.ndarray:
                Inverse cumulative distribution values for points in U.

        Raises:
            NotFittedError:
                if the model is not fitted.
        """
        self.check_fit()
        return self._instance.percent_point(U)

    def ppf(self, U):
        """Compute the inverse cumulative distribution value for each point in U.

        Arguments:
            U (numpy.ndarray):
                Values for which the cumulative distribution will be computed.
                It must have shape (n, 1) and values must be in [0,1].

        Returns:
            numpy.ndarray:
                Inverse cumulative distribution values for points in U.
        """
        return self.percent_point(U)

    def set_random_state(self, random_state):
        """Set the random state.

        Args:
            random_state (int, np.random.RandomState, or None):
                Seed or RandomState for the random generator.
        """
        self.random_state = validate_random_state(random_state)

    @random_state
    def sample(self, n_samples=1):
        """Sample values from this model.

        Argument:
            n_samples (int):
                Number of values to sample

        Returns:
            numpy.ndarray:
                Array of shape (n_samples, 1) with values randomly
                sampled from this model distribution.

        Raises:
            NotFittedError:
                if the model is not fitted.
        """
        self.check_fit()
        return self._instance.sample(n_samples)

    def _get_params(self):
        """Return attributes from self.model to serialize.

        Returns:
            dict:
                Parameters of the underlying distribution.
        """
        return self._instance._get_params()

    def _set_params(self, params):
        """Set the parameters of this univariate.

        Must be implemented in all the subclasses.

        Args:
            dict:
                Parameters to recreate this instance.
        """
        raise NotImplementedError()

    def to_dict(self):
        """Return the parameters of this model in a dict.

        Returns:
            dict:
                Dictionary containing the distribution type and all
                the parameters that define the distribution.

        Raises:
            NotFittedError:
                if the model is not fitted.
        """
        self.check_fit()

        params = self._get_params()
        if self.__class__ is Univariate:
            params['type'] = get_qualified_name(self._instance)
        else:
            params['type'] = get_qualified_name(self)

        return params

    @classmethod
    def from_dict(cls, params):
        """Build a distribution from its params dict.

        Args:
            params (dict):
                Dictionary containing the FQN of the distribution and the
                necessary parameters to rebuild it.
                The input format is exactly the same that is outputted by
                the distribution class ``to_dict`` method.

        Returns:
            Univariate:
                Distribution instance.
        """
        params = params.copy()
        distribution = get_instance(params.pop('type'))
        distribution._set_params(params)
        distribution.fitted = True

        return distribution

    def save(self, path):
        """Serialize this univariate instance using pickle.

        Args:
            path (str):
                Path to where this distribution will be serialized.
        """
        with open(path, 'wb') as pickle_file:
            pickle.dump(self, pickle_file)

    @classmethod
    def load(cls, path):
        """Load a Univariate instance from a pickle file.

        Args:
            path (str):
                Path to the pickle file where the distribution has been serialized.

        Returns:
            Univariate:
                Loaded instance.
        """
        with open(path, 'rb') as pickle_file:
            return pickle.load(pickle_file)


class ScipyModel(Univariate, ABC):
    """Wrapper for scipy models.

    This class makes the probability_density, cumulative_distribution,
    percent_point and sample point at the underlying pdf, cdf, ppd and rvs
    methods respectively.

    fit, _get_params and _set_params must be implemented by the subclasses.
    """

    MODEL_CLASS = None

    _params = None

    def __init__(self, random_state=None):
        """Initialize Scipy model.

        Overwrite Univariate __init__ to skip candidate initialization.

        Args:
            random_state (int, np.random.RandomState, or None): seed
                or RandomState for random generator.
        """
        self.random_state = validate_random_state(random_state)

    def probability_density(self, X):
        """Compute the probability density for each point in X.

        Arguments:
            X (numpy.ndarray):
                Values for which the probability density will be computed.
                It must have shape (n, 1).

        Returns:
            numpy.ndarray:
                Probability density values for points in X.

        Raises:
            NotFittedError:
                if the model is not fitted.
        """
        self.check_fit()
        return self.MODEL_CLASS.pdf(X, **self._params)

    def log_probability_density(self, X):
        """Compute the log of the probability density for each point in X.

        Arguments:
            X (numpy.ndarray):
                Values for which the log probability density will be computed.
                It must have shape (n, 1).

        Returns:
            numpy.ndarray:
                Log probability density values for points in X.

        Raises:
            NotFittedError:
                if the model is not fitted.
        """
        self.check_fit()
        if hasattr(self.MODEL_CLASS, 'logpdf'):
            return self.MODEL_CLASS.logpdf(X, **self._params)

        return np.log(self.probability_density(X))

    def cumulative_distribution(self, X):
        """Compute the cumulative distribution value for each point in X.

        Arguments:
            X (numpy.ndarray):
                Values for which the cumulative distribution will be computed.
                It must have shape (n, 1).

        Returns:
            numpy.ndarray:
                Cumulative distribution values for points in X.

        Raises:
            NotFittedError:
                if the model is not fitted.
        """
        self.check_fit()
        return self.MODEL_CLASS.cdf(X, **self._params)

    def percent_point(self, U):
        """Compute the inverse cumulative distribution value for each point in U.

        Arguments:
            U (numpy.ndarray):
                Values for which the cumulative distribution will be computed.
                It must have shape (n, 1) and values must be in [0,1].

        Returns:
            numpy.ndarray:
                Inverse cumulative distribution values for points in U.

        Raises:
            NotFittedError:
                if the model is not fitted.
        """
        self.check_fit()
        return self.MODEL_CLASS.ppf(U, **self._params)

    @random_state
    def sample(self, n_samples=1):
        """Sample values from this model.

        Argument:
            n_samples (int):
                Number of values to sample

        Returns:
            numpy.ndarray:
                Array of shape (n_samples, 1) with values randomly
                sampled from this model distribution.

        Raises:
            NotFittedError:
                if the model is not fitted.
        """
        self.check_fit()
        return self.MODEL_CLASS.rvs(size=n_samples, **self._params)

    def _fit(self, X):
        """Fit the model to a non-constant random variable.

        Must be implemented in all the subclasses.

        Arguments:
            X (numpy.ndarray):
                Values of the random variable. It must have shape (n, 1).
        """
        raise NotImplementedError()

    def fit(self, X):
        """Fit the model to a random variable.

        Arguments:
            X (numpy.ndarray):
                Values of the random variable. It must have shape (n, 1).
        """
        if self._check_constant_value(X):
            self._fit_constant(X)
        else:
            self._fit(X)

        self.fitted = True

    def _get_params(self):
        """Return attributes from self._model to serialize.

        Must be implemented in all the subclasses.

        Returns:
            dict:
                Parameters to recreate self._model in its current fit status.
        """
        return self._params.copy()

    def _set_params(self, params):
        """Set the parameters of this univariate.

        Args:
            params (dict):
                Parameters to recreate this instance.
        """
        self._params = params.copy()
        if self._is_constant():
            constant = self._extract_constant()
            self._set_constant_value(constant)
