"""GaussianKDE module."""

import numpy as np
from scipy.special import ndtr
from scipy.stats import gaussian_kde

from copulas.optimize import bisect, chandrupatla
from copulas.univariate.base import BoundedType, ParametricType, ScipyModel
from copulas.utils import EPSILON, random_state, store_args, validate_random_state


class GaussianKDE(ScipyModel):
    """A wrapper for gaussian Kernel density estimation.

    It was implemented in scipy.stats toolbox. gaussian_kde is slower than statsmodels
    but allows more flexibility.

    When a sample_size is provided the fit method will sample the
    data, and mask the real information. Also, ensure the number of
    entries will be always the value of sample_size.

    Args:
        sample_size(int): amount of parameters to sample
    """

    PARAMETRIC = ParametricType.NON_PARAMETRIC
    BOUNDED = BoundedType.UNBOUNDED
    MODEL_CLASS = gaussian_kde

    @store_args
    def __init__(self, sample_size=None, random_state=None, bw_method=None, weights=None):
        self.random_state = validate_random_state(random_state)
        self._sample_size = sample_size
        self.bw_method = bw_method
        self.weights = weights

    def _get_model(self):
        dataset = self._params['dataset']
        self._sample_size = self._sample_size or len(dataset)
        return gaussian_kde(dataset, bw_method=self.bw_method, weights=self.weights)

    def _get_bounds(self):
        X = self._params['dataset']
        lower = np.min(X) - (5 * np.std(X))
        upper = np.max(X) + (5 * np.std(X))

        return lower, upper

    def probability_density(self, X):
        """Compute the probability density for each point in X.

        Arguments:
            X (numpy.ndarray):
                Values for which the probability density will be computed.
                It must have shape (n, 1).

        Returns:
            numpy.ndarray:
                Probability density values for points in X.

        Raises:
            NotFittedError:
                if the model is not fitted.
        """
        self.check_fit()
        return self._model.evaluate(X)

    def log_probability_density(self, X):
        """Compute the log of the probability density for each point in X.

        Arguments:
            X (numpy.ndarray):
                Values for which the log probability density will be computed.
                It must have shape (n, 1).

        Returns:
            numpy.ndarray:
                Log probability density values for points in X.

        Raises:
            NotFittedError:
                if the model is not fitted.
        """
        self.check_fit()
        return np.log(self.probability_density(X))

    @random_state
    def sample(self, n_samples=1):
        """Sample values from this model.

        Argument:
            n_samples (int):
                Number of values to sample

        Returns:
            numpy.ndarray:
                Array of shape (n_samples, 1) with values randomly
                sampled from this model distribution.

        Raises:
            NotFittedError:
                if the model is not fitted.
        """
        self.check_fit()
        return self._model.resample(size=n_samples)[0]

    def cumulative_distribution(self, X):
        """Compute the cumulative distribution value for each point in X.

        Arguments:
            X (numpy.ndarray):
                Values for which the cumulative distribution will be computed.
                It must have shape (n, 1).

        Returns:
            numpy.ndarray:
                Cumulative distribution values for points in X.

        Raises:
            NotFittedError:
                if the model is not fitted.
        """
        self.check_fit()
        X = np.array(X)
        stdev = np.sqrt(self._model.covariance[0, 0])
        lower = ndtr((self._get_bounds()[0] - self._model.dataset) / stdev)[0]
        uppers = ndtr((X[:, None] - self._model.dataset) / stdev)
        return (uppers - lower).dot(self._model.weights)

    def percent_point(self, U, method='chandrupatla'):
        """Compute the inverse cumulative distribution value for each point in U.

        Arguments:
            U (numpy.ndarray):
                Values for which the cumulative distribution will be computed.
                It must have shape (n, 1) and values must be in [0,1].
            method (str):
                Whether to use the `chandrupatla` or `bisect` solver.

        Returns:
            numpy.ndarray:
                Inverse cumulative distribution values for points in U.

        Raises:
            NotFittedError:
                if the model is not fitted.
        """
        self.check_fit()

        if len(U.shape) > 1:
            raise ValueError(f'Expected 1d array, got {(U,)}.')

        if np.any(U > 1.0) or np.any(U < 0.0):
            raise ValueError('Expected values in range [0.0, 1.0].')

        is_one = U >= 1.0 - EPSILON
        is_zero = U <= EPSILON
        is_valid = ~(is_zero | is_one)

        lower, upper = self._get_bounds()

        def _f(X):
            return self.cumulative_distribution(X) - U[is_valid]

        X = np.zeros(U.shape)
        X[is_one] = float('inf')
        X[is_zero] = float('-inf')
        if is_valid.any():
            lower = np.full(U[is_valid].shape, lower)
            upper = np.full(U[is_valid].shape, upper)
            if method == 'bisect':
                X[is_valid] = bisect(_f, lower, upper)
            else:
                X[is_valid] = chandrupatla(_f, lower, upper)

        return X

    def _fit_constant(self, X):
        sample_size = self._sample_size or len(X)
        constant = np.unique(X)[0]
        self._params = {
            'dataset': [constant] * sample_size,
        }

    def _fit(self, X):
        if self._sample_size:
            X = gaussian_kde(X, bw_method=self.bw_method, weights=self.weights).resample(
                self._sample_size
            )
        self._params = {'dataset': X.tolist()}
        self._model = self._get_model()

    def _is_constant(self):
        return len(np.unique(self._params['dataset'])) == 1

    def _extract_constant(self):
        return self._params['dataset'][0]

    def _set_params(self, params):
        """Set the parameters of this univariate.

        Args:
            params (dict):
                Parameters to recreate this instance.
        """
        self._params = params.copy()
        if self._is_constant():
            constant = self._extract_constant()
            self._set_constant_value(constant)
        else:
            self._model = self._get_model()
