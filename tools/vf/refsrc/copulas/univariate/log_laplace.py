"""LogLaplace module."""

import numpy as np
from scipy.stats import loglaplace

from copulas.univariate.base import BoundedType, ParametricType, ScipyModel


class LogLaplace(ScipyModel):
    """Wrapper around scipy.stats.loglaplace.

    Documentation: https://docs.scipy.org/doc/scipy/reference/generated/scipy.stats.loglaplace.html
    """

    PARAMETRIC = ParametricType.PARAMETRIC
    BOUNDED = BoundedType.SEMI_BOUNDED
    MODEL_CLASS = loglaplace

    def _fit_constant(self, X):
        self._params = {
            'c': 2.0,
            'loc': np.unique(X)[0],
            'scale': 0.0,
        }

    def _fit(self, X):
        c, loc, scale = loglaplace.fit(X)
        self._params = {
            'c': c,
            'loc': loc,
            'scale': scale,
        }

    def _is_constant(self):
        return self._params['scale'] == 0

    def _extract_constant(self):
        return self._params['loc']
