"""BetaUnivariate module."""

import numpy as np
from scipy.stats import beta

from copulas.univariate.base import BoundedType, ParametricType, ScipyModel


class BetaUnivariate(ScipyModel):
    """Wrapper around scipy.stats.beta.

    Documentation: https://docs.scipy.org/doc/scipy/reference/generated/scipy.stats.beta.html
    """

    PARAMETRIC = ParametricType.PARAMETRIC
    BOUNDED = BoundedType.BOUNDED
    MODEL_CLASS = beta

    def _fit_constant(self, X):
        self._params = {
            'a': 1.0,
            'b': 1.0,
            'loc': np.unique(X)[0],
            'scale': 0.0,
        }

    def _fit(self, X):
        loc = np.min(X)
        scale = np.max(X) - loc
        a, b, loc, scale = beta.fit(X, loc=loc, scale=scale)
        self._params = {'loc': loc, 'scale': scale, 'a': a, 'b': b}

    def _is_constant(self):
        return self._params['scale'] == 0

    def _extract_constant(self):
        return self._params['loc']
