"""Copulas Exceptions."""


class NotFittedError(Exception):
    """NotFittedError class."""
