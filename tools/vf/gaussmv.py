"""GaussianMultivariate (copulas/multivariate/gaussian.py): fail-closed pattern translators from the Python AST
to Coq (used by C02 and C12), oracle capture on the real class, table/model generators and Coq literal helpers.

Generated files
  Gen_gmcorr.v     _transform_to_normal (per-entry score, clip constants), _get_correlation (statement by statement,
                   over R with the denotations of Spec/GaussMVDefs.v; executable Q companions for the correspondence)
  Gen_gmcond_mc.v  _get_conditional_distribution as mathcomp matrix expressions (dimension-typed block selectors)
  Gen_gmcond_q.v   _get_conditional_distribution over labelled rational matrices (Model/MatQ.v), the label bookkeeping of
                   _transform_to_normal / _get_normal_samples / sample in the vocabulary of Model/CondSample.v
Anything outside the expected statement shapes raises Unsupported.
"""
import ast
from . import srcnorm as _srcnorm
import copy
import os
import types
from fractions import Fraction

from . import py2coq as P
from .core import REPO

Unsupported = P.Unsupported
GPATH = os.path.join(REPO, 'copulas', 'multivariate', 'gaussian.py')
UPATH = os.path.join(REPO, 'copulas', 'utils.py')


# ------------------------------------------------------------------------------------------------
# literals
def qlit(x):
    f = Fraction(x) if not isinstance(x, Fraction) else x
    return f'({f.numerator} # {f.denominator})' if f >= 0 else f'(-({-f.numerator} # {f.denominator}))'


def qlist(a):
    return '[' + '; '.join(qlit(float(x)) for x in a) + ']'


def qmat(m):
    return '[' + '; '.join(qlist(r) for r in m) + ']'


def natlist(a):
    return '[' + '; '.join(str(int(x)) for x in a) + ']'


def rlit(f):
    f = Fraction(f)
    if f.denominator == 1:
        return f'{f.numerator}' if f >= 0 else f'(-{-f.numerator})'
    s = f'({abs(f.numerator)} / {f.denominator})'
    return s if f >= 0 else f'(-{s})'


# ------------------------------------------------------------------------------------------------
# source access
def _body(f):
    return [s for s in f.body if not (isinstance(s, ast.Expr) and isinstance(s.value, ast.Constant)
                                      and isinstance(s.value.value, str))]


def _method(name):
    return P.find_method(GPATH, 'GaussianMultivariate', name)


def _u(n):
    return ast.unparse(n)


def resolve_constants():
    """EPSILON as imported by gaussian.py.  Returns Fraction."""
    gmod = _srcnorm.parse_file(GPATH)
    ok = False
    for n in gmod.body:
        if isinstance(n, ast.ImportFrom) and n.module == 'copulas.utils':
            for a in n.names:
                if a.name == 'EPSILON' and a.asname in (None, 'EPSILON'):
                    ok = True
        if isinstance(n, ast.Assign) and any(isinstance(t, ast.Name) and t.id == 'EPSILON' for t in n.targets):
            raise Unsupported('gaussian.py rebinds EPSILON at module level')
    if not ok:
        raise Unsupported('gaussian.py does not import EPSILON from copulas.utils')
    umod = _srcnorm.parse_file(UPATH)
    val = None
    for n in umod.body:
        if isinstance(n, ast.Assign) and len(n.targets) == 1 and isinstance(n.targets[0], ast.Name) \
                and n.targets[0].id == 'EPSILON':
            src = _u(n.value)
            if src == 'np.finfo(np.float32).eps':
                val = Fraction(1, 2 ** 23)
            elif src == 'np.finfo(np.float64).eps' or src == 'sys.float_info.epsilon':
                val = Fraction(1, 2 ** 52)
            elif isinstance(n.value, ast.Constant) and isinstance(n.value.value, (int, float)) \
                    and not isinstance(n.value.value, bool):
                val = Fraction(n.value.value)
            else:
                raise Unsupported('copulas.utils.EPSILON has an unsupported defining expression: ' + src)
    if val is None:
        raise Unsupported('copulas.utils.EPSILON not found')
    return val


class Scalar:
    """closed scalar expressions: numeric literals, EPSILON, sys.float_info.epsilon, + - * /  ->  (R text, Q text)"""

    def __init__(self, eps_name_r='gm_EPSILON', eps_name_q='gm_EPSILON_q'):
        self.er, self.eq = eps_name_r, eps_name_q

    def e(self, n):
        if isinstance(n, ast.Constant) and isinstance(n.value, (int, float)) and not isinstance(n.value, bool):
            if n.value != n.value or n.value in (float('inf'), float('-inf')):
                raise Unsupported('non-finite literal')
            return rlit(Fraction(n.value)), qlit(Fraction(n.value))
        if isinstance(n, ast.Name) and n.id == 'EPSILON':
            return self.er, self.eq
        if isinstance(n, ast.Attribute) and _u(n) == 'sys.float_info.epsilon':
            return 'DBL_EPSILON', '(1 # 4503599627370496)'
        if isinstance(n, ast.UnaryOp) and isinstance(n.op, ast.USub):
            r, q = self.e(n.operand)
            return f'(- {r})', f'(- {q})'
        if isinstance(n, ast.BinOp) and type(n.op) in (ast.Add, ast.Sub, ast.Mult, ast.Div):
            o = {ast.Add: '+', ast.Sub: '-', ast.Mult: '*', ast.Div: '/'}[type(n.op)]
            (lr, lq), (rr, rq) = self.e(n.left), self.e(n.right)
            return f'({lr} {o} {rr})', f'({lq} {o} {rq})'
        raise Unsupported('scalar expression: ' + _u(n))


# ------------------------------------------------------------------------------------------------
# _transform_to_normal
NORMALISE_INPUT = ('if isinstance(X, pd.Series):\n    X = X.to_frame().T\n'
                   'elif not isinstance(X, pd.DataFrame):\n    if len(X.shape) == 1:\n        X = [X]\n'
                   '    X = pd.DataFrame(X, columns=self.columns)')


def translate_transform_to_normal():
    """returns dict(clip_lo=(r,q), clip_hi=(r,q)) after checking the loop shape:
         U = []
         for column_name, univariate in zip(self.columns, self.univariates):     # TRAINING order
             if column_name in X:                                                 # membership filter
                 column = X[column_name]
                 U.append(univariate.cdf(column.to_numpy()).clip(lo, hi))
         return stats.norm.ppf(np.column_stack(U))"""
    mod, c, f = _method('_transform_to_normal')
    if [a.arg for a in f.args.args] != ['self', 'X'] or f.decorator_list:
        raise Unsupported('_transform_to_normal signature/decorators')
    b = _body(f)
    if len(b) != 4:
        raise Unsupported('_transform_to_normal: expected 4 statements, got ' + ' ;; '.join(_u(s)[:40] for s in b))
    if _u(b[0]) != NORMALISE_INPUT:
        raise Unsupported('_transform_to_normal: input normalisation changed: ' + _u(b[0])[:200])
    if _u(b[1]) != 'U = []':
        raise Unsupported('_transform_to_normal: accumulator: ' + _u(b[1]))
    loop = b[2]
    if not isinstance(loop, ast.For) or loop.orelse or _u(loop.iter) != 'zip(self.columns, self.univariates)' \
            or not isinstance(loop.target, ast.Tuple) or len(loop.target.elts) != 2:
        raise Unsupported('_transform_to_normal: loop is not `for c, u in zip(self.columns, self.univariates)`')
    cn, un = [e.id for e in loop.target.elts]
    if len(loop.body) != 1 or not isinstance(loop.body[0], ast.If) or loop.body[0].orelse \
            or _u(loop.body[0].test) != f'{cn} in X':
        raise Unsupported('_transform_to_normal: loop body is not `if column_name in X:`')
    ib = loop.body[0].body
    if len(ib) != 2 or not isinstance(ib[0], ast.Assign) or _u(ib[0].value) != f'X[{cn}]':
        raise Unsupported('_transform_to_normal: column selection: ' + _u(ib[0]))
    col = ib[0].targets[0].id
    app = ib[1]
    if not (isinstance(app, ast.Expr) and isinstance(app.value, ast.Call) and _u(app.value.func) == 'U.append'
            and len(app.value.args) == 1 and not app.value.keywords):
        raise Unsupported('_transform_to_normal: append: ' + _u(app))
    e = app.value.args[0]
    # univariate.cdf(column.to_numpy()).clip(lo, hi)
    if not (isinstance(e, ast.Call) and isinstance(e.func, ast.Attribute) and e.func.attr == 'clip'
            and len(e.args) == 2 and not e.keywords):
        raise Unsupported('_transform_to_normal: the marginal CDF value is not clipped: ' + _u(e))
    inner = e.func.value
    if _u(inner) not in (f'{un}.cdf({col}.to_numpy())', f'{un}.cdf({col})'):
        raise Unsupported('_transform_to_normal: clipped expression is not univariate.cdf(column): ' + _u(inner))
    sc = Scalar()
    lo, hi = sc.e(e.args[0]), sc.e(e.args[1])
    if _u(b[3]) != 'return stats.norm.ppf(np.column_stack(U))':
        raise Unsupported('_transform_to_normal: return: ' + _u(b[3]))
    return {'lo': lo, 'hi': hi}


# ------------------------------------------------------------------------------------------------
# _get_correlation
class MatR:
    """matrix expressions of the ridge statement -> R text (PearsonDefs vocabulary)"""

    def __init__(self, env):
        self.env = env          # python name -> (coq name, kind)
        self.sc = Scalar()

    def kind(self, n):
        try:
            self.sc.e(n)
            return 'scalar'
        except Unsupported:
            return 'mat'

    def e(self, n):
        if isinstance(n, ast.Name):
            if n.id in self.env and self.env[n.id][1] == 'mat':
                return self.env[n.id][0]
            raise Unsupported('matrix name ' + n.id)
        if isinstance(n, ast.Call) and _u(n.func) == 'np.identity' and len(n.args) == 1 and not n.keywords:
            a = n.args[0]
            if isinstance(a, ast.Subscript) and isinstance(a.slice, ast.Constant) and a.slice.value == 0 \
                    and isinstance(a.value, ast.Attribute) and a.value.attr == 'shape':
                return f'(identity (length {self.e(a.value.value)}))'
            raise Unsupported('np.identity argument: ' + _u(a))
        if isinstance(n, ast.BinOp) and isinstance(n.op, ast.Add):
            return f'(madd {self.e(n.left)} {self.e(n.right)})'
        if isinstance(n, ast.BinOp) and isinstance(n.op, ast.Mult):
            kl, kr = self.kind(n.left), self.kind(n.right)
            if kl == 'mat' and kr == 'scalar':
                return f'(mscale {self.sc.e(n.right)[0]} {self.e(n.left)})'
            if kl == 'scalar' and kr == 'mat':
                return f'(mscale {self.sc.e(n.left)[0]} {self.e(n.right)})'
        raise Unsupported('matrix expression: ' + _u(n))


def translate_get_correlation():
    mod, c, f = _method('_get_correlation')
    if [a.arg for a in f.args.args] != ['self', 'X'] or f.decorator_list:
        raise Unsupported('_get_correlation signature/decorators')
    b = _body(f)
    if len(b) != 5:
        raise Unsupported('_get_correlation: expected 5 statements, got ' + ' ;; '.join(_u(s)[:50] for s in b))

    def assign(s):
        if not (isinstance(s, ast.Assign) and len(s.targets) == 1 and isinstance(s.targets[0], ast.Name)):
            raise Unsupported('_get_correlation: not a simple assignment: ' + _u(s))
        return s.targets[0].id, s.value
    env = {}
    lines = []
    # 1. scores
    t, v = assign(b[0])
    if _u(v) != 'self._transform_to_normal(X)':
        raise Unsupported('_get_correlation: scores are not self._transform_to_normal(X): ' + _u(v))
    env[t] = ('result', 'table')
    scores = t
    # 2. DataFrame.corr
    t, v = assign(b[1])
    if _u(v) != f'pd.DataFrame(data={scores}).corr().to_numpy()' and _u(v) != f'pd.DataFrame({scores}).corr().to_numpy()':
        raise Unsupported('_get_correlation: correlation is not pd.DataFrame(data=result).corr().to_numpy(): ' + _u(v))
    lines.append(f'let {t} := pd_corr result in')
    env[t] = (t, 'optmat')
    # 3. nan_to_num
    t2, v = assign(b[2])
    if not (isinstance(v, ast.Call) and _u(v.func) == 'np.nan_to_num' and len(v.args) == 1 and isinstance(v.args[0], ast.Name)
            and env.get(v.args[0].id, (None, None))[1] == 'optmat' and [k.arg for k in v.keywords] == ['nan']):
        raise Unsupported('_get_correlation: NaN handling is not np.nan_to_num(correlation, nan=...): ' + _u(v))
    nanr, nanq = Scalar().e(v.keywords[0].value)
    lines.append(f'let {t2} := np_nan_to_num {nanr} {env[v.args[0].id][0]} in')
    env[t2] = (t2, 'mat')
    # 4. ridge
    s = b[3]
    if not (isinstance(s, ast.If) and not s.orelse and len(s.body) == 1 and isinstance(s.test, ast.Compare)
            and len(s.test.ops) == 1 and isinstance(s.test.ops[0], ast.Gt)):
        raise Unsupported('_get_correlation: singularity test is not `if np.linalg.cond(correlation) > threshold:`: '
                          + _u(s)[:120])
    lhs = s.test.left
    if not (isinstance(lhs, ast.Call) and _u(lhs.func) == 'np.linalg.cond' and len(lhs.args) == 1 and not lhs.keywords
            and isinstance(lhs.args[0], ast.Name) and env.get(lhs.args[0].id, (None, None))[1] == 'mat'):
        raise Unsupported('_get_correlation: tested quantity is not np.linalg.cond(correlation): ' + _u(lhs))
    thr_r, thr_q = Scalar().e(s.test.comparators[0])
    t3, v = assign(s.body[0])
    if env.get(t3, (None, None))[1] != 'mat':
        raise Unsupported('_get_correlation: ridge assigns to a new name')
    ridge = MatR(env).e(v)
    cm = env[lhs.args[0].id][0]
    lines.append(f'let {t3} := if rbar_gtb (np_linalg_cond {cm}) {thr_r} then {ridge} else {t3} in')
    # 5. labelled frame
    r = b[4]
    if not (isinstance(r, ast.Return) and isinstance(r.value, ast.Call) and _u(r.value.func) == 'pd.DataFrame'
            and len(r.value.args) == 1 and isinstance(r.value.args[0], ast.Name)
            and env.get(r.value.args[0].id, (None, None))[1] == 'mat'
            and sorted(k.arg for k in r.value.keywords) == ['columns', 'index']):
        raise Unsupported('_get_correlation: return is not pd.DataFrame(correlation, index=..., columns=...): ' + _u(r))
    kw = {k.arg: _u(k.value) for k in r.value.keywords}
    for k, val in kw.items():
        if val != 'self.columns':
            raise Unsupported(f'_get_correlation: {k}= is not self.columns: {val}')
    lines.append(f'mkLFrame columns columns {env[r.value.args[0].id][0]}.')
    return {'lines': lines, 'thr_q': thr_q, 'nan_q': nanq}


GMCORR_HDR = '''(* GENERATED by tools/vf/gaussmv.py from copulas/multivariate/gaussian.py (_transform_to_normal, _get_correlation)
   and copulas/utils.py (EPSILON) -- regenerated on every run *)
From Coq Require Import Reals QArith List Bool.
From Coquelicot Require Import Rbar.
From Cop Require Import Lib.NumpyR Spec.PearsonDefs Spec.GaussMVDefs Model.PearsonQ.
Import ListNotations.
'''


def gen_gmcorr():
    eps = resolve_constants()
    tr = translate_transform_to_normal()
    gc = translate_get_correlation()
    out = GMCORR_HDR
    out += 'Open Scope R_scope.\n'
    out += f'Definition gm_EPSILON : R := {rlit(eps)}.\n'
    out += ('(* one entry of _transform_to_normal: stats.norm.ppf(univariate.cdf(x).clip(lo, hi)) *)\n'
            f'Definition gm_clip_lo : R := {tr["lo"][0]}.\nDefinition gm_clip_hi : R := {tr["hi"][0]}.\n'
            'Definition gm_score (norm_ppf cdf : R -> R) (x : R) : R := norm_ppf (np_clip (cdf x) gm_clip_lo gm_clip_hi).\n'
            '(* column j of X goes through univariates[j] (zip(self.columns, self.univariates)) *)\n'
            'Definition gm_transform_to_normal (norm_ppf : R -> R) (cdfs : list (R -> R)) (X : list (list R)) : list (list R) :=\n'
            '  map2 (fun cdf column => map (gm_score norm_ppf cdf) column) cdfs X.\n')
    out += ('(* _get_correlation after the score transform; np_linalg_cond is an oracle with values in Rbar *)\n'
            'Definition gm_get_correlation {L : Type} (np_linalg_cond : list (list R) -> Rbar) (columns : list L)\n'
            '           (result : list (list R)) : lframe L R :=\n  ' + '\n  '.join(gc['lines']) + '\n')
    out += 'Close Scope R_scope.\nOpen Scope Q_scope.\n'
    out += f'Definition gm_EPSILON_q : Q := {qlit(eps)}.\n'
    out += (f'Definition gm_clip_q (u : Q) : Q := clipq u {tr["lo"][1]} {tr["hi"][1]}.\n'
            f'Definition gm_nan_q : Q := {gc["nan_q"]}.\n'
            f'Definition gm_cond_threshold_q : Q := {gc["thr_q"]}.\n'
            '(* the singularity decision on a captured condition number (None = inf) *)\n'
            'Definition gm_ill_q (cond : option Q) : bool :=\n'
            '  match cond with None => true | Some c => negb (Qle_bool c gm_cond_threshold_q) end.\n'
            '(* correspondence of one fit: U = marginal CDF values (columns), PIN/POUT = captured argument/result of norm.ppf,\n'
            '   cond = captured np.linalg.cond, M = the fitted correlation; result:\n'
            '   (clip agrees, ridge decision, entries of M not certified within tol, shape, exact symmetry) *)\n'
            'Definition gm_fit_check (U PIN POUT : list (list Q)) (cond : option Q) (M : list (list Q)) (tol : Q) :=\n'
            '  (eq_tables (map (map gm_clip_q) U) PIN, gm_ill_q cond,\n'
            '   bad_entries POUT (gm_ill_q cond) gm_EPSILON_q M tol, shape_ok (length POUT) M, symmetric_q M).\n')
    return out


# ------------------------------------------------------------------------------------------------
# _get_conditional_distribution
class CondTr:
    """typed expression translator with two back ends: mathcomp ('mc') and rational lists ('q')"""

    def __init__(self):
        self.env = {}       # name -> dict(kind, mc, q, sel)

    def e(self, n):
        if isinstance(n, ast.Name):
            if n.id not in self.env:
                raise Unsupported('unbound name ' + n.id)
            return dict(self.env[n.id])
        s = _u(n)
        if s == 'conditions.index':
            return {'kind': 'labels', 'sel': 'Cols2', 'mc': None, 'q': '(map fst conditions)'}
        if isinstance(n, ast.Call) and isinstance(n.func, ast.Attribute) and n.func.attr == 'difference' \
                and _u(n.func.value) == 'self.correlation.columns' and len(n.args) == 1 and not n.keywords:
            a = self.e(n.args[0])
            if a['kind'] != 'labels' or a['sel'] != 'Cols2':
                raise Unsupported('difference argument is not the conditions index')
            return {'kind': 'labels', 'sel': 'Cols1', 'mc': None,
                    'q': f'(difference isort (lf_columns correlation) {a["q"]})'}
        # self.correlation.loc[r, c].to_numpy()
        if isinstance(n, ast.Call) and isinstance(n.func, ast.Attribute) and n.func.attr == 'to_numpy' and not n.args \
                and not n.keywords and isinstance(n.func.value, ast.Subscript) \
                and _u(n.func.value.value) == 'self.correlation.loc' and isinstance(n.func.value.slice, ast.Tuple) \
                and len(n.func.value.slice.elts) == 2:
            r, c = [self.e(x) for x in n.func.value.slice.elts]
            if r['kind'] != 'labels' or c['kind'] != 'labels':
                raise Unsupported('.loc selectors are not label sets')
            return {'kind': 'mat', 'sel': (r['sel'], c['sel']), 'mc': f'(loc {r["sel"]} {c["sel"]})',
                    'q': f'(locq correlation {r["q"]} {c["q"]})'}
        if isinstance(n, ast.Call) and _u(n.func) == 'np.zeros' and len(n.args) == 1 and not n.keywords \
                and isinstance(n.args[0], ast.Call) and _u(n.args[0].func) == 'len' and len(n.args[0].args) == 1:
            a = self.e(n.args[0].args[0])
            if a['kind'] != 'labels':
                raise Unsupported('np.zeros(len(.)) of a non-label set')
            return {'kind': 'vec', 'sel': a['sel'], 'mc': f"(0 : 'cV[F]_(gm_dim {a['sel']}))",
                    'q': f'(zerosq (length {a["q"]}))'}
        if isinstance(n, ast.Call) and _u(n.func) == 'np.linalg.inv' and len(n.args) == 1 and not n.keywords:
            a = self.e(n.args[0])
            if a['kind'] != 'mat' or a['sel'][0] != a['sel'][1]:
                raise Unsupported('np.linalg.inv of a non-square block')
            return {'kind': 'mat', 'sel': a['sel'], 'mc': f'(invmx {a["mc"]})', 'q': f'(inv {a["q"]})'}
        if isinstance(n, ast.BinOp) and isinstance(n.op, (ast.Add, ast.Sub)):
            l, r = self.e(n.left), self.e(n.right)
            if l['kind'] != r['kind'] or l['kind'] not in ('mat', 'vec') or l['sel'] != r['sel']:
                raise Unsupported('+/- of incompatible operands: ' + s)
            o = '+' if isinstance(n.op, ast.Add) else '-'
            fq = {('mat', '+'): 'maddq', ('mat', '-'): 'msubq', ('vec', '+'): 'vaddq', ('vec', '-'): 'vsubq'}[(l['kind'], o)]
            return {'kind': l['kind'], 'sel': l['sel'], 'mc': f'({l["mc"]} {o} {r["mc"]})', 'q': f'({fq} {l["q"]} {r["q"]})'}
        if isinstance(n, ast.BinOp) and isinstance(n.op, ast.MatMult):
            l, r = self.e(n.left), self.e(n.right)
            if l['kind'] == 'mat' and r['kind'] == 'mat':
                if l['sel'][1] != r['sel'][0]:
                    raise Unsupported('@ with mismatching inner label sets: ' + s)
                return {'kind': 'mat', 'sel': (l['sel'][0], r['sel'][1]), 'mc': f'({l["mc"]} *m {r["mc"]})',
                        'q': f'(mmulq {l["q"]} {r["q"]})'}
            if l['kind'] == 'mat' and r['kind'] == 'vec':
                if l['sel'][1] != r['sel']:
                    raise Unsupported('@ with mismatching inner label sets: ' + s)
                return {'kind': 'vec', 'sel': l['sel'][0], 'mc': f'({l["mc"]} *m {r["mc"]})',
                        'q': f'(mvmulq {l["q"]} {r["q"]})'}
        raise Unsupported('_get_conditional_distribution: expression ' + s)


GMCOND_MC_HDR = '''(* GENERATED by tools/vf/gaussmv.py from GaussianMultivariate._get_conditional_distribution -- regenerated on every run.
   Label sets become the selectors Cols1 (= correlation.columns.difference(conditions.index)) and Cols2 (= conditions.index);
   `self.correlation.loc[a, b].to_numpy()` is the block `loc a b`, typed by the sizes of the two label sets, so an exchanged
   selector does not type-check when the sizes differ. *)
From mathcomp Require Import all_ssreflect all_algebra.
Set Implicit Arguments. Unset Strict Implicit. Unset Printing Implicit Defensive.
Import GRing.Theory.
Local Open Scope ring_scope.
Inductive gm_sel := Cols1 | Cols2.
Section GenCond.
Variable F : fieldType.
Variables m n : nat.
Definition gm_dim (s : gm_sel) : nat := match s with Cols1 => m | Cols2 => n end.
Variable loc : forall a b : gm_sel, 'M[F]_(gm_dim a, gm_dim b).
Variable conditions : 'cV[F]_(gm_dim Cols2).
'''

GMCOND_Q_HDR = '''(* GENERATED by tools/vf/gaussmv.py from GaussianMultivariate._get_conditional_distribution, _transform_to_normal,
   _get_normal_samples and sample -- regenerated on every run *)
From Coq Require Import QArith List Bool Arith.
From Cop Require Import Model.PearsonQ Model.CondSample Model.MatQ.
Import ListNotations.
'''


def translate_conditional_distribution():
    mod, c, f = _method('_get_conditional_distribution')
    if [a.arg for a in f.args.args] != ['self', 'conditions'] or f.decorator_list:
        raise Unsupported('_get_conditional_distribution signature/decorators')
    b = _body(f)
    tr = CondTr()
    tr.env['conditions'] = {'kind': 'vec', 'sel': 'Cols2', 'mc': 'conditions', 'q': '(map snd conditions)'}
    mc, q = [], []
    if not b or not isinstance(b[-1], ast.Return):
        raise Unsupported('_get_conditional_distribution: no final return')
    for s in b[:-1]:
        if not (isinstance(s, ast.Assign) and len(s.targets) == 1 and isinstance(s.targets[0], ast.Name)):
            raise Unsupported('_get_conditional_distribution: not a simple assignment: ' + _u(s))
        name = s.targets[0].id
        if name == 'conditions':
            raise Unsupported('_get_conditional_distribution rebinds conditions')
        v = tr.e(s.value)
        if v['kind'] == 'labels':
            q.append(f'let {name} := {v["q"]} in')
            tr.env[name] = {'kind': 'labels', 'sel': v['sel'], 'mc': None, 'q': name}
        else:
            mc.append(f'let {name} := {v["mc"]} in')
            q.append(f'let {name} := {v["q"]} in')
            tr.env[name] = {'kind': v['kind'], 'sel': v['sel'], 'mc': name, 'q': name}
    r = b[-1].value
    if not (isinstance(r, ast.Tuple) and len(r.elts) == 3):
        raise Unsupported('_get_conditional_distribution: return is not a 3-tuple')
    mu, sg, cols = [tr.e(x) for x in r.elts]
    if mu['kind'] != 'vec' or mu['sel'] != 'Cols1' or sg['kind'] != 'mat' or sg['sel'] != ('Cols1', 'Cols1') \
            or cols['kind'] != 'labels' or cols['sel'] != 'Cols1':
        raise Unsupported('_get_conditional_distribution: returned (mean, covariance, columns) are not all indexed by '
                          'the free columns: ' + _u(r))
    mc_txt = (GMCOND_MC_HDR + 'Definition gm_cond_dist :=\n  ' + '\n  '.join(mc) + f'\n  ({mu["mc"]}, {sg["mc"]}).\nEnd GenCond.\n')
    q_txt = ('Open Scope Q_scope.\n'
             '(* inv: the np.linalg.inv oracle (instantiated with the checked Gauss-Jordan inverse Model.MatQ.invq_total) *)\n'
             'Definition gm_cond_dist_q (inv : matq -> matq) (correlation : lframe label Q) (conditions : list (label * Q))\n'
             '  : vecq * matq * list label :=\n  ' + '\n  '.join(q) + f'\n  ({mu["q"]}, {sg["q"]}, {cols["q"]}).\nClose Scope Q_scope.\n')
    return mc_txt, q_txt


# ------------------------------------------------------------------------------------------------
# label bookkeeping of _get_normal_samples / sample: strict statement match, emitted in the vocabulary of Model/CondSample.v
NORMAL_SAMPLES_SRC = [
    'if conditions is None:\n    covariance = self.correlation\n    columns = self.columns\n    means = np.zeros(len(columns))\n'
    'else:\n    conditions = pd.Series(conditions)\n    normal_conditions = self._transform_to_normal(conditions)[0]\n'
    '    known = [column for column in self.columns if column in conditions.index]\n'
    '    normal_conditions = pd.Series(normal_conditions, index=known)\n'
    '    means, covariance, columns = self._get_conditional_distribution(normal_conditions)',
    'samples = np.random.multivariate_normal(means, covariance, size=num_rows)',
    'return pd.DataFrame(samples, columns=columns)',
]
SAMPLE_SRC = [
    'self.check_fit()',
    'samples = self._get_normal_samples(num_rows, conditions)',
    'output = {}',
    'for column_name, univariate in zip(self.columns, self.univariates):\n'
    '    if conditions is not None and column_name in conditions:\n'
    '        output[column_name] = np.full(num_rows, conditions[column_name])\n'
    '    else:\n        cdf = stats.norm.cdf(samples[column_name])\n'
    '        output[column_name] = univariate.percent_point(cdf)',
    'return pd.DataFrame(data=output)',
]

BOOKKEEPING_COQ = '''
(* _transform_to_normal on the conditions: scores of the conditioned columns, in TRAINING order *)
Definition gm_transform_conditions (V : Type) (score : label -> V -> V) (columns : list label)
           (conditions : list (label * V)) : result (list V) :=
  let U := flat_map (fun column_name => match lookup column_name conditions with
                                        | Some x => [score column_name x]
                                        | None => []
                                        end) columns in
  match U with [] => Err ValueError_no_arrays | _ => Ok U end.

(* known = [column for column in self.columns if column in conditions.index]
   pd.Series(self._transform_to_normal(conditions)[0], index=known) *)
Definition gm_normal_conditions (V : Type) (score : label -> V -> V) (columns : list label)
           (conditions : list (label * V)) : result (list (label * V)) :=
  let known := filter (fun column => has_key V column conditions) columns in
  bind (gm_transform_conditions V score columns conditions) (relabel V known).

Definition gm_normal_samples (V : Type) sort score cond_params (uncond_params : list V * list (list V)) mvn
           (columns : list label) (num_rows : nat) (conditions : option (list (label * V))) : result (frame V) :=
  match conditions with
  | None =>
      let '(means, covariance) := uncond_params in
      match columns with [] => Err ValueError_empty_draw | _ => mk_frame V (mvn means covariance num_rows) columns end
  | Some conditions =>
      bind (gm_normal_conditions V score columns conditions) (fun normal_conditions =>
        match first_unknown columns (map fst normal_conditions) with
        | Some l => Err (KeyError l)
        | None =>
            let columns1 := columns1 V sort columns normal_conditions in
            let '(means, covariance) := cond_params columns1 normal_conditions in
            match columns1 with [] => Err ValueError_empty_draw | _ => mk_frame V (mvn means covariance num_rows) columns1 end
        end)
  end.

(* one iteration of the output loop of sample: `conditions is not None and column_name in conditions` *)
Definition gm_output_column (V : Type) (ppf : label -> V -> V) (Phi : V -> V) (kind : container) (num_rows : nat)
           (conditions : option (list (label * V))) (samples : frame V) (column_name : label) : result (label * list V) :=
  let sampled := bind (frame_col V samples column_name)
                      (fun col => Ok (column_name, map (fun x => ppf column_name (Phi x)) col)) in
  match conditions with
  | None => sampled
  | Some conds =>
      match lookup column_name conds with
      | Some v => Ok (column_name, repeat v num_rows)
      | None => sampled
      end
  end.

Definition gm_sample (V : Type) sort score ppf Phi cond_params uncond_params mvn (columns : list label)
           (kind : container) (num_rows : nat) (conditions : option (list (label * V)))
  : result (list (label * list V)) :=
  bind (gm_normal_samples V sort score cond_params uncond_params mvn columns num_rows conditions) (fun samples =>
    mapM (gm_output_column V ppf Phi kind num_rows conditions samples) columns).
'''


def translate_bookkeeping():
    """_get_normal_samples and sample must consist of exactly the statements the label-bookkeeping model was written for
    (the hand-written model encodes, among others, the labelling of the scores by `known` and `if conditions is not None and ...`)."""
    translate_transform_to_normal()
    mod, c, f = _method('_get_normal_samples')
    if [a.arg for a in f.args.args] != ['self', 'num_rows', 'conditions'] or f.decorator_list:
        raise Unsupported('_get_normal_samples signature/decorators')
    src = [_u(s) for s in _body(f)]
    if src != NORMAL_SAMPLES_SRC:
        d = next((i for i, (a, b) in enumerate(zip(src, NORMAL_SAMPLES_SRC)) if a != b), min(len(src), len(NORMAL_SAMPLES_SRC)))
        raise Unsupported(f'_get_normal_samples: statement {d} differs from the modelled one: '
                          + (src[d][:300] if d < len(src) else '(missing)'))
    mod, c, f = _method('sample')
    if [a.arg for a in f.args.args] != ['self', 'num_rows', 'conditions'] or [_u(d) for d in f.decorator_list] != ['random_state']:
        raise Unsupported('sample signature/decorators')
    if [_u(d) for d in f.args.defaults] != ['1', 'None']:
        raise Unsupported('sample defaults')
    src = [_u(s) for s in _body(f)]
    if src != SAMPLE_SRC:
        d = next((i for i, (a, b) in enumerate(zip(src, SAMPLE_SRC)) if a != b), min(len(src), len(SAMPLE_SRC)))
        raise Unsupported(f'sample: statement {d} differs from the modelled one: ' + (src[d][:300] if d < len(src) else '(missing)'))
    return BOOKKEEPING_COQ


def generate(ctx, what):
    """what: subset of {'corr','cond'}.  Writes the generated files, returns {name: error-or-''}."""
    status = {}
    if 'corr' in what:
        try:
            ctx.write('Gen_gmcorr.v', gen_gmcorr())
            status['gm_get_correlation'] = ''
        except Unsupported as ex:
            status['gm_get_correlation'] = str(ex)
    if 'cond' in what:
        try:
            mc, q = translate_conditional_distribution()
            ctx.write('Gen_gmcond_mc.v', mc)
            status['gm_cond_dist'] = ''
        except Unsupported as ex:
            status['gm_cond_dist'] = str(ex)
            q = None
        try:
            bk = translate_bookkeeping()
            status['gm_sample_bookkeeping'] = ''
        except Unsupported as ex:
            status['gm_sample_bookkeeping'] = str(ex)
            bk = None
        if q is not None and bk is not None:
            ctx.write('Gen_gmcond_q.v', GMCOND_Q_HDR + q + bk)
    return status


# ------------------------------------------------------------------------------------------------
# oracle capture on the real class: gaussian.py sees proxies of `np` and `stats`
class _Proxy:
    def __init__(self, target, overrides):
        object.__setattr__(self, '_t', target)
        object.__setattr__(self, '_o', overrides)

    def __getattr__(self, k):
        o = object.__getattribute__(self, '_o')
        if k in o:
            return o[k]
        return getattr(object.__getattribute__(self, '_t'), k)


class Capture:
    """context manager: while active, copulas.multivariate.gaussian uses recording proxies for
    stats.norm.ppf / stats.norm.cdf / np.linalg.cond / np.linalg.inv / np.random.multivariate_normal.
    mvn_samples: callable (means, cov, size) -> array to return instead of drawing (None = real draw)."""

    def __init__(self, mvn_samples=None):
        self.ppf, self.cond, self.mvn, self.inv, self.ncdf = [], [], [], [], []
        self.mvn_samples = mvn_samples

    def __enter__(self):
        import numpy as np
        import copulas.multivariate.gaussian as G
        self.G = G
        self.saved = (G.np, G.stats)
        real_np, real_stats = G.np, G.stats

        def ppf(x, *a, **k):
            r = real_stats.norm.ppf(x, *a, **k)
            self.ppf.append((np.array(x, dtype=float, copy=True), np.array(r, dtype=float, copy=True)))
            return r

        def ncdf(x, *a, **k):
            r = real_stats.norm.cdf(x, *a, **k)
            self.ncdf.append((np.array(x, dtype=float, copy=True), np.array(r, dtype=float, copy=True)))
            return r

        def cond(m, *a, **k):
            r = real_np.linalg.cond(m, *a, **k)
            self.cond.append((np.array(m, dtype=float, copy=True), float(r)))
            return r

        def inv(m, *a, **k):
            r = real_np.linalg.inv(m, *a, **k)
            self.inv.append((np.array(m, dtype=float, copy=True), np.array(r, dtype=float, copy=True)))
            return r

        def mvn(means, cov, size=None, *a, **k):
            mm, cc = np.array(means, dtype=float, copy=True), np.array(cov, dtype=float, copy=True)
            self.mvn.append((mm, cc, size))
            if self.mvn_samples is not None:
                if mm.shape[0] == 0:
                    return real_np.random.multivariate_normal(means, cov, size=size)    # raises as numpy does
                return np.array(self.mvn_samples(mm, cc, size), dtype=float)
            return real_np.random.multivariate_normal(means, cov, size=size, *a, **k)
        G.np = _Proxy(real_np, {'linalg': _Proxy(real_np.linalg, {'cond': cond, 'inv': inv}),
                                'random': _Proxy(real_np.random, {'multivariate_normal': mvn})})
        G.stats = _Proxy(real_stats, {'norm': _Proxy(real_stats.norm, {'ppf': ppf, 'cdf': ncdf})})
        return self

    def __exit__(self, *exc):
        self.G.np, self.G.stats = self.saved
        return False


# ------------------------------------------------------------------------------------------------
# tables and marginal configurations
def marginal_configs(columns):
    """every documented way of configuring marginals; returns list of (name, factory() -> distribution argument or None)"""
    from copulas.univariate import (BetaUnivariate, GammaUnivariate, GaussianKDE, GaussianUnivariate, StudentTUnivariate,
                                    TruncatedGaussian, UniformUnivariate, Univariate)
    pool = [GaussianUnivariate, 'copulas.univariate.uniform.UniformUnivariate', 'copulas.univariate.GaussianKDE',
            UniformUnivariate(), 'copulas.univariate.student_t.StudentTUnivariate', TruncatedGaussian,
            'copulas.univariate.gamma.GammaUnivariate', BetaUnivariate]

    def per_column(shift):
        def mk():
            d = {}
            for i, c in enumerate(columns):
                if (i + shift) % 4 == 3:
                    continue            # left to the default
                d[c] = copy.deepcopy(pool[(i + shift) % len(pool)]) if not isinstance(pool[(i + shift) % len(pool)], (str, type)) \
                    else pool[(i + shift) % len(pool)]
            return d
        return mk
    return [
        ('default', lambda: None),
        ('class', lambda: GaussianUnivariate),
        ('class-uniform', lambda: UniformUnivariate),
        ('qualified-name', lambda: 'copulas.univariate.gaussian.GaussianUnivariate'),
        ('qualified-name-kde', lambda: 'copulas.univariate.gaussian_kde.GaussianKDE'),
        ('instance', lambda: GaussianUnivariate()),
        ('instance-parametric', lambda: Univariate(parametric=__import__('copulas.univariate', fromlist=['ParametricType']).ParametricType.PARAMETRIC)),
        ('dict', per_column(0)),
        ('dict-shifted', per_column(3)),
    ]


def make_table(rng, d, n, kinds=None, labels='str', regular=False):
    """random numeric table with designed dependent columns.  kinds per column:
       'base' fresh random, 'near' nearly collinear with an earlier column, 'dup' copy of an earlier column, 'pos' / 'neg' affine (anti-)image, 'const', 'int' (ties)"""
    import numpy as np
    import pandas as pd
    if kinds is None and regular:
        kinds = ['base'] + [str(rng.choice(['base', 'base', 'mix', 'int', 'near'])) for _ in range(d - 1)]
    if kinds is None:
        kinds = ['base'] + [str(rng.choice(['base', 'base', 'mix', 'dup', 'pos', 'neg', 'const', 'int'])) for _ in range(d - 1)]
    cols = []
    for j, k in enumerate(kinds):
        prev = [c for c, kk in zip(cols, kinds) if kk != 'const']
        if k in ('dup', 'pos', 'neg', 'mix', 'near') and not prev:
            k = 'base'
        if k == 'base':
            c = rng.normal(float(rng.uniform(-3, 3)), float(rng.uniform(0.5, 3)), n) if rng.random() < 0.6 \
                else rng.lognormal(0.0, 0.7, n)
        elif k == 'mix':
            src = prev[int(rng.integers(len(prev)))]
            c = float(rng.uniform(-1, 1)) * src + rng.normal(0, float(np.std(src)) + 0.1, n)
        elif k == 'near':       # nearly collinear: condition number ~1e9..1e10, far below the ridge threshold 1/DBL_EPSILON
            src = prev[int(rng.integers(len(prev)))]
            c = src + 3e-5 * (float(np.std(src)) + 1e-3) * rng.normal(0, 1, n)
        elif k == 'dup':
            c = prev[int(rng.integers(len(prev)))].copy()
        elif k == 'pos':
            c = float(rng.uniform(0.5, 3)) * prev[int(rng.integers(len(prev)))] + float(rng.uniform(-2, 2))
        elif k == 'neg':
            c = -float(rng.uniform(0.5, 3)) * prev[int(rng.integers(len(prev)))] + float(rng.uniform(-2, 2))
        elif k == 'const':
            c = np.full(n, float(np.round(rng.uniform(-5, 5), 2)))
        elif k == 'offset':     # huge offset relative to the spread (geo-coordinates, timestamps): NOT a constant column
            src = prev[int(rng.integers(len(prev)))] if prev else rng.normal(0, 1, n)
            c = 1.0e6 + 0.5 * (src - float(np.mean(src))) / (float(np.std(src)) + 1e-12) + 0.3 * rng.normal(0, 1, n)
        elif k == 'tiny':       # tiny absolute scale: NOT a constant column
            src = prev[int(rng.integers(len(prev)))] if prev else rng.normal(0, 1, n)
            c = 2e-9 * ((src - float(np.mean(src))) / (float(np.std(src)) + 1e-12) + 0.5 * rng.normal(0, 1, n))
        elif k == 'outlier':    # a regular column with ONE gross outlier (beyond 5.2 sigma of any location-scale fit): the clip at EPSILON acts
            c = rng.normal(float(rng.uniform(-3, 3)), float(rng.uniform(0.5, 3)), n)
            c[int(rng.integers(0, n))] = float(np.mean(c)) + float(rng.choice([-1.0, 1.0])) * 14.0 * float(np.std(c))
        elif k == 'int':
            c = rng.integers(0, 4, n).astype(float)
            if len(set(c)) == 1:
                c[0] += 1.0
        else:
            raise ValueError(k)
        cols.append(np.asarray(c, dtype=float))
    if labels == 'str':
        pool = ['b', 'c', 'a', 'e', 'd', 'f', 'zz', 'A', 'col 1', 'x0']
        names = [pool[i] for i in rng.permutation(len(pool))[:d]]
    elif labels == 'int':
        names = [int(i) for i in rng.permutation(d)]
    else:
        names = list(labels)
    return pd.DataFrame({nm: c for nm, c in zip(names, cols)}, columns=names), kinds


def new_model(dist, seed):
    from copulas.multivariate import GaussianMultivariate
    if dist is None:
        return GaussianMultivariate(random_state=seed)
    return GaussianMultivariate(distribution=dist, random_state=seed)


def label_ranks(columns):
    """labels -> nat, by the order pandas Index.difference sorts with (plain sorted() of the labels)"""
    order = sorted(columns)
    return {c: order.index(c) for c in columns}


def table_repr(X):
    return {str(c): [float(v) for v in X[c].to_numpy()] for c in X.columns}
