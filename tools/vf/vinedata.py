"""Helpers of the C17 check (vine data plane: which array goes where in fit / get_likelihood / _sample_row).

 * generate_clips: fragment-E generation (py2coq printers) of the four "correction of 0 or 1" lines of
   Tree.prepare_next_tree and of the sampler's clip `min(max(tmp, EPSILON), 0.99)` -> Gen_vineclip.v
   (bridged to Model.VineData.clip_h / Spec.VineSampleR.clip_s in Props/C17.v).  Fail-closed.
 * Tracer: context manager instrumenting the REAL classes (harness side only, everything restored on exit).
   Arrays are identified by CONTENT (every column of pseudo-observations is unique), exactly as the model
   author's tools/aux/vine2/trace.py does; provenance terms are nested tuples
        ('M', i)                 u_matrix[:, i]                       (likelihood: u[0, i])
        ('H', t, idx, x, y)      partial_derivative of a copula at [x, y], stored by edge idx of tree t (0-based)
        ('G', t, r, c)           never-written np.empty cell [r, c] of the matrix read by tree t
        ('?',)                   an array nobody registered
   np.empty of copulas.multivariate.tree / vine is replaced by LogArr (records every item read / write).
 * spec_likelihood: the property's own statement (sum over edges of log c_e(F(L|D), F(R|D)) with the
   conditionals obtained by the textbook h-recursion), independent of the library's recursion.
 * sample_trace_real: the real _sample_row with unis / first_ind / percent_point / ppfs replaced by tags.
 * coq_* / parse: rendering for Model.VineData and parsing of its nat-only printers.
"""
import ast
from . import srcnorm as _srcnorm
import math
import os
import warnings
from fractions import Fraction

import numpy as np

from . import py2coq as P
from .core import REPO

TREE_PY = os.path.join(REPO, 'copulas', 'multivariate', 'tree.py')
VINE_PY = os.path.join(REPO, 'copulas', 'multivariate', 'vine.py')
UTILS_PY = os.path.join(REPO, 'copulas', 'utils.py')
Unsupported = P.Unsupported


# ================================================================================================
# 1. generation of the clips (fragment E)
# ================================================================================================
def _imports_epsilon(path):
    mod = _srcnorm.parse_file(path)
    ok = False
    for n in ast.walk(mod):
        if isinstance(n, ast.ImportFrom) and n.module == 'copulas.utils':
            ok = ok or any(a.name == 'EPSILON' and a.asname in (None, 'EPSILON') for a in n.names)
        if isinstance(n, (ast.Assign, ast.AugAssign, ast.AnnAssign)):
            tg = n.targets if isinstance(n, ast.Assign) else [n.target]
            for t in tg:
                for m in ast.walk(t):
                    if isinstance(m, ast.Name) and m.id == 'EPSILON':
                        raise Unsupported(f'{os.path.basename(path)} rebinds EPSILON')
    if not ok:
        raise Unsupported(f'{os.path.basename(path)} does not import EPSILON from copulas.utils')


def resolve_epsilon():
    """copulas.utils.EPSILON as an exact Fraction"""
    for p in (TREE_PY, VINE_PY):
        _imports_epsilon(p)
    val = None
    for n in _srcnorm.parse_file(UTILS_PY).body:
        if isinstance(n, ast.Assign) and len(n.targets) == 1 and isinstance(n.targets[0], ast.Name) and n.targets[0].id == 'EPSILON':
            src = ast.unparse(n.value)
            if src == 'np.finfo(np.float32).eps':
                val = Fraction(1, 2 ** 23)
            elif src in ('np.finfo(np.float64).eps', 'np.finfo(float).eps', 'sys.float_info.epsilon'):
                val = Fraction(1, 2 ** 52)
            elif isinstance(n.value, ast.Constant) and isinstance(n.value.value, (int, float)) and not isinstance(n.value.value, bool):
                val = dec(n.value.value)
            else:
                raise Unsupported('copulas.utils.EPSILON has an unsupported defining expression: ' + src)
    if val is None:
        raise Unsupported('copulas.utils.EPSILON not found')
    return val


def dec(v):
    """a numeric literal as the decimal rational the programmer wrote (0.99 -> 99/100); the float rounding of literals is
    not modelled in the real-number statements"""
    if isinstance(v, bool) or not isinstance(v, (int, float)):
        raise Unsupported(f'constant {v!r}')
    if isinstance(v, float) and (v != v or math.isinf(v)):
        raise Unsupported('non-finite literal')
    return Fraction(repr(v))


def rlit(f):
    s = f'{abs(f.numerator)}' if f.denominator == 1 else f'({abs(f.numerator)} / {f.denominator})'
    return s if f >= 0 else f'(- {s})'


def qlit(f):
    s = f'({abs(f.numerator)} # {f.denominator})'
    return s if f >= 0 else f'(- {s})'


class RTr(P.ExprTr):
    """py2coq real printer + decimal literals + the builtins min / max of two arguments"""

    def e(self, n):
        if isinstance(n, ast.Constant):
            return rlit(dec(n.value))
        return super().e(n)

    def call(self, n):
        if isinstance(n.func, ast.Name) and n.func.id in ('min', 'max') and len(n.args) == 2 and not n.keywords:
            return f"({'Rmin' if n.func.id == 'min' else 'Rmax'} {self.e(n.args[0])} {self.e(n.args[1])})"
        return super().call(n)


class QTr(P.QExprTr):
    """py2coq rational printer + names + decimal literals + min / max / np.clip / np.minimum / np.maximum"""

    def e(self, n):
        s = self.s
        if isinstance(n, ast.Constant):
            return qlit(dec(n.value))
        if isinstance(n, ast.Name):
            for tab in (s.env, s.lanes, s.consts):
                if n.id in tab:
                    return tab[n.id]
            raise Unsupported(f'name {n.id}')
        if isinstance(n, ast.Call) and not n.keywords:
            f = ast.unparse(n.func)
            if f in ('min', 'np.minimum') and len(n.args) == 2:
                return f'(vc_qmin {self.e(n.args[0])} {self.e(n.args[1])})'
            if f in ('max', 'np.maximum') and len(n.args) == 2:
                return f'(vc_qmax {self.e(n.args[0])} {self.e(n.args[1])})'
            if f == 'np.clip' and len(n.args) == 3:
                return f'(vc_qmin (vc_qmax {self.e(n.args[0])} {self.e(n.args[1])}) {self.e(n.args[2])})'
            raise Unsupported('call ' + ast.unparse(n))
        return super().e(n)


def _strip_doc(body):
    return [s for s in body if not (isinstance(s, ast.Expr) and isinstance(s.value, ast.Constant) and isinstance(s.value.value, str))]


def translate_h_clip():
    """Tree.prepare_next_tree: everything done to the two partial_derivative results before they are stored in edge.U.
    Returns (coq text, info).  Shape (checked): inside `for edge in self.edges:` ...
        A = copula.partial_derivative(XA); B = copula.partial_derivative(XB)
        (A|B)[(A|B) == const] = closed scalar expr      (any number of these, nothing else)
        edge.U = np.array([A, B])"""
    mod, c, f = P.find_method(TREE_PY, 'Tree', 'prepare_next_tree')
    loops = [s for s in _strip_doc(f.body) if isinstance(s, ast.For)]
    if len(loops) != 1 or ast.unparse(loops[0].iter) != 'self.edges' or not isinstance(loops[0].target, ast.Name) or loops[0].orelse:
        raise Unsupported('prepare_next_tree is not a single `for edge in self.edges` loop')
    ev = loops[0].target.id
    body = loops[0].body
    iu = [i for i, s in enumerate(body) if isinstance(s, ast.Assign) and any(ast.unparse(t) == f'{ev}.U' for t in s.targets)]
    if len(iu) != 1 or iu[0] != len(body) - 1:
        raise Unsupported(f'{ev}.U is not assigned exactly once, as the last statement of the loop')
    val = body[iu[0]].value
    if not (isinstance(val, ast.Call) and ast.unparse(val.func) == 'np.array' and len(val.args) == 1 and not val.keywords
            and isinstance(val.args[0], ast.List) and len(val.args[0].elts) == 2 and all(isinstance(e, ast.Name) for e in val.args[0].elts)):
        raise Unsupported(f'{ev}.U is not np.array([A, B]): ' + ast.unparse(val))
    A, B = (e.id for e in val.args[0].elts)
    if A == B:
        raise Unsupported('edge.U stores the same array twice')
    ipd = {}
    for i, s in enumerate(body):
        if isinstance(s, ast.Assign) and len(s.targets) == 1 and isinstance(s.targets[0], ast.Name) and s.targets[0].id in (A, B):
            if not (isinstance(s.value, ast.Call) and isinstance(s.value.func, ast.Attribute) and s.value.func.attr == 'partial_derivative'
                    and len(s.value.args) == 1 and not s.value.keywords):
                raise Unsupported(f'{s.targets[0].id} is not the result of a partial_derivative call: ' + ast.unparse(s))
            if s.targets[0].id in ipd:
                raise Unsupported(f'{s.targets[0].id} assigned twice')
            ipd[s.targets[0].id] = (i, ast.unparse(s.value.args[0]))
    if set(ipd) != {A, B}:
        raise Unsupported('the arrays stored in edge.U are not both partial_derivative results')
    start = max(i for i, _ in ipd.values()) + 1
    if abs(ipd[A][0] - ipd[B][0]) != 1:
        raise Unsupported('statements between the two partial_derivative calls')
    steps = {A: [], B: []}
    sc = P.Scope('Tree', {}, None, {}, {'EPSILON': 'vc_EPSILON_q'}, {})
    q = QTr(sc)
    for s in body[start:iu[0]]:
        ok = (isinstance(s, ast.Assign) and len(s.targets) == 1 and isinstance(s.targets[0], ast.Subscript)
              and isinstance(s.targets[0].value, ast.Name) and s.targets[0].value.id in (A, B)
              and isinstance(s.targets[0].slice, ast.Compare) and len(s.targets[0].slice.ops) == 1
              and isinstance(s.targets[0].slice.left, ast.Name) and s.targets[0].slice.left.id == s.targets[0].value.id)
        if not ok:
            raise Unsupported('statement between partial_derivative and edge.U outside the fragment `A[A == c] = e`: ' + ast.unparse(s))
        nm = s.targets[0].value.id
        sc.env = {nm: 'x'}
        cond = q.cmp(s.targets[0].slice.ops[0], s.targets[0].slice.left, s.targets[0].slice.comparators[0])
        sc.env = {}
        steps[nm].append((cond, q.e(s.value), ast.unparse(s)))
    out = ''
    for k, nm in enumerate((A, B)):
        lets = ''.join(f'  let x := if {cnd} then {v} else x in   (* {src} *)\n' for cnd, v, src in steps[nm])
        out += (f'(* entries of edge.U[{k}] = `{nm}` = partial_derivative({ipd[nm][1]}) after the in-place corrections *)\n'
                f'Definition vc_clip_U{k}_q (x : Q) : Q :=\n{lets}  x.\n')
    return out, {'U0': A, 'U1': B, 'U0_input': ipd[A][1], 'U1_input': ipd[B][1], 'steps': {k: [s[2] for s in v] for k, v in steps.items()}}


def translate_sample_clip():
    """VineCopula._sample_row: every re-assignment of `tmp` that is not a percent_point call, as a function of tmp."""
    mod, c, f = P.find_method(VINE_PY, 'VineCopula', '_sample_row')
    pp, others = [], []
    for n in ast.walk(f):
        if isinstance(n, (ast.AugAssign, ast.AnnAssign)) and any(isinstance(m, ast.Name) and m.id == 'tmp' for m in ast.walk(n.target)):
            raise Unsupported('augmented assignment to tmp')
        if isinstance(n, ast.Assign) and any(isinstance(m, ast.Name) and m.id == 'tmp' for t in n.targets for m in ast.walk(t)):
            if len(n.targets) != 1 or not isinstance(n.targets[0], ast.Name):
                raise Unsupported('assignment to tmp: ' + ast.unparse(n))
            if any(isinstance(m, ast.Attribute) and m.attr == 'percent_point' for m in ast.walk(n.value)):
                pp.append(n)
            else:
                others.append(n)
    if len(pp) != 2:
        raise Unsupported(f'{len(pp)} percent_point assignments to tmp (expected the two branches of `if i == itr - 1`)')
    if len(others) != 1:
        raise Unsupported(f'{len(others)} post-processing assignments to tmp (expected exactly the clip): ' + ' ;; '.join(ast.unparse(o) for o in others))
    rhs = others[0].value
    names = {m.id for m in ast.walk(rhs) if isinstance(m, ast.Name)} - {'min', 'max', 'np'}
    if not names <= {'tmp', 'EPSILON'}:
        raise Unsupported('the clip of tmp depends on ' + ', '.join(sorted(names - {'tmp', 'EPSILON'})))
    r = RTr(P.Scope('VineCopula', {'tmp': 'tmp'}, None, {}, {'EPSILON': 'vc_EPSILON'}, {}))
    q = QTr(P.Scope('VineCopula', {'tmp': 'tmp'}, None, {}, {'EPSILON': 'vc_EPSILON_q'}, {}))
    src = ast.unparse(others[0])
    return (f'(* {src} *)\nDefinition vc_sample_clip (tmp : R) : R := {r.e(rhs)}.\n'
            f'Definition vc_sample_clip_q (tmp : Q) : Q := {q.e(rhs)}.\n'), {'clip': src}


GEN_HDR = '''(* GENERATED by tools/vf/vinedata.py (py2coq fragment E) from copulas/multivariate/tree.py (Tree.prepare_next_tree),
   copulas/multivariate/vine.py (VineCopula._sample_row) and copulas/utils.py (EPSILON) -- regenerated on every run *)
From Coq Require Import Reals QArith List Bool.
From Cop Require Import Lib.NumpyR.
Definition vc_qmin (a b : Q) : Q := if Qle_bool a b then a else b.
Definition vc_qmax (a b : Q) : Q := if Qle_bool a b then b else a.
'''


def generate_clips(ctx):
    """write Gen_vineclip.v; returns (status dict name -> None | error, info)"""
    status, info = {}, {}
    out = GEN_HDR
    try:
        eps = resolve_epsilon()
        out += f'Definition vc_EPSILON_q : Q := {qlit(eps)}.\nDefinition vc_EPSILON : R := {rlit(eps)}%R.\n'
        status['EPSILON'] = None
        info['EPSILON'] = str(eps)
    except Exception as ex:      # noqa  fail-closed
        status['EPSILON'] = f'{type(ex).__name__}: {ex}'
    q_part, r_part = '', ''
    try:
        t, i = translate_h_clip()
        q_part = 'Open Scope Q_scope.\n' + t + 'Close Scope Q_scope.\n'
        info.update(i)
        status['prepare_next_tree:correction-of-0-or-1'] = None
    except Exception as ex:      # noqa
        status['prepare_next_tree:correction-of-0-or-1'] = f'{type(ex).__name__}: {ex}'
    try:
        t, i = translate_sample_clip()
        # the Q definition is printed in Q_scope, the R one in R_scope
        rdef, qdef = t.split('Definition vc_sample_clip_q')
        r_part = 'Open Scope R_scope.\n' + rdef + 'Close Scope R_scope.\nOpen Scope Q_scope.\nDefinition vc_sample_clip_q' + qdef + 'Close Scope Q_scope.\n'
        info.update(i)
        status['_sample_row:clip'] = None
    except Exception as ex:      # noqa
        status['_sample_row:clip'] = f'{type(ex).__name__}: {ex}'
    ctx.write('Gen_vineclip.v', out + q_part + r_part)
    return status, info


# ================================================================================================
# 2. tracing the real classes
# ================================================================================================
class LogArr(np.ndarray):
    """ndarray that records item reads / writes (index, value) in a shared event list"""
    _sink = None
    _aid = -1

    def __array_finalize__(self, obj):
        if obj is not None:
            self._sink = getattr(obj, '_sink', None)
            self._aid = getattr(obj, '_aid', -1)

    def __getitem__(self, idx):
        r = np.ndarray.__getitem__(self, idx)
        if self._sink is not None:
            self._sink.append(('r', self._aid, idx, r))
        return r

    def __setitem__(self, idx, val):
        if self._sink is not None:
            self._sink.append(('w', self._aid, idx, val))
        np.ndarray.__setitem__(self, idx, val)


def garbage_value(aid, r, c):
    """distinct, reproducible content of every never-written cell (inside (0,1) so that the kernels evaluate)"""
    return 0.2 + 0.0137 * ((aid * 7 + r * 3 + c) % 37) + 1e-7 * (r * 11 + c)


class NpProxy:
    """stands in for the name `np` inside copulas.multivariate.tree / vine: np.empty returns a filled (optionally logging) array"""

    def __init__(self, tracer=None, fill=None):
        self._tracer, self._fill = tracer, fill

    def __getattr__(self, k):
        return getattr(np, k)

    def empty(self, shape, *a, **k):
        base = np.zeros(shape, dtype=float)
        if self._tracer is None:
            base[...] = self._fill
            return base
        if base.ndim != 2 or max(base.shape) > 8:
            base[...] = 0.123       # big arrays (u_matrix) are fully written by the library; not logged
            return base
        t = self._tracer
        aid = len(t.arrays)
        arr = base.view(LogArr)
        # fit phase: the same constant as plain_fit (the structure of regular vines depends on unwritten tau cells: C16/F8);
        # likelihood phase: distinct content per cell, so that garbage can be tagged
        np.ndarray.__setitem__(arr, Ellipsis, 0.123)
        if t.distinct_garbage:
            for r in range(arr.shape[0]):
                for c in range(arr.shape[1]):
                    np.ndarray.__setitem__(arr, (r, c), garbage_value(aid, r, c))
        arr._sink, arr._aid = t.events, aid
        t.arrays.append(arr)
        return arr


class poison:
    """`with poison(fill):` np.empty of the two vine modules returns arrays filled with `fill` (no tracing)"""

    def __init__(self, fill):
        self.fill = fill

    def __enter__(self):
        from copulas.multivariate import tree as T, vine as V
        self.mods = [(m, m.np) for m in (T, V)]
        for m, _ in self.mods:
            m.np = NpProxy(None, self.fill)
        return self

    def __exit__(self, *exc):
        for m, o in self.mods:
            m.np = o
        return False


def tname(x):
    return str(getattr(x, 'name', x)).lower()


class Tracer:
    def __init__(self):
        self.reg = []          # (array, term)
        self.events = []       # LogArr events
        self.arrays = []       # LogArr instances by id
        self.selects = []      # dicts: x, y (terms), X (copy), name, theta, level
        self.pds = []          # dicts: x, y, res (array object), name, theta, ctx
        self.taus = []         # dicts: level, x, y, value
        self.tau_mats = {}     # level -> (LogArr id)
        self.ctx = {'phase': None, 'tree': None, 'edge': None}
        self.marks = []        # (event index, phase, tree level, edge index)
        self.distinct_garbage = False

    # ---- registry
    def register(self, arr, term):
        self.reg.append((arr, term))

    def lookup(self, a):
        a = np.asarray(a, dtype=float).ravel()
        for arr, term in self.reg:
            b = np.asarray(arr, dtype=float).ravel()
            if b.shape == a.shape and np.array_equal(a, b):
                return term
        return ('?',)

    # ---- instrumentation
    def __enter__(self):
        from copulas.multivariate import tree as T, vine as V
        from copulas.bivariate.base import Bivariate
        import scipy.stats
        self.T, self.V, self.B, self.S = T, V, Bivariate, scipy.stats
        tr = self
        self._saved = {'Tnp': T.np, 'Vnp': V.np, 'sel': Bivariate.__dict__['select_copula'], 'kt': scipy.stats.kendalltau,
                       'pnt': T.Tree.prepare_next_tree, 'gtm': T.Tree.get_tau_matrix, 'elik': T.Edge.get_likelihood,
                       'tlik': T.Tree.get_likelihood, 'pd': {}}
        T.np = NpProxy(self)
        V.np = NpProxy(self)
        o_sel = self._saved['sel'].__func__

        def select(cls, X):
            with warnings.catch_warnings():
                warnings.simplefilter('ignore')
                res = o_sel(cls, X)
            X = np.asarray(X)
            tr.selects.append({'x': tr.lookup(X[:, 0]), 'y': tr.lookup(X[:, 1]), 'X': np.array(X, dtype=float, copy=True),
                               'name': res.copula_type, 'theta': res.theta})
            return res
        Bivariate.select_copula = classmethod(select)

        def wrap_pd(cls):
            o = cls.__dict__['partial_derivative']
            tr._saved['pd'][cls] = o

            def pdv(self, X):
                r = o(self, X)
                if tr.ctx['phase'] in ('prepare', 'lik'):
                    Xa = np.asarray(X)
                    rec = {'x': tr.lookup(Xa[:, 0]), 'y': tr.lookup(Xa[:, 1]), 'res': r, 'name': self.copula_type, 'theta': self.theta,
                           'phase': tr.ctx['phase'], 'tree': tr.ctx['tree'], 'edge': tr.ctx['edge'], 'X': np.array(Xa, dtype=float, copy=True)}
                    tr.pds.append(rec)
                    if tr.ctx['phase'] == 'lik':
                        tr.register(r, ('H', tr.ctx['tree'], tr.ctx['edge'], rec['x'], rec['y']))
                return r
            cls.partial_derivative = pdv
        for c in [Bivariate] + list(Bivariate.subclasses()):
            if 'partial_derivative' in c.__dict__:
                wrap_pd(c)

        o_pnt = self._saved['pnt']

        def prepare(tree):
            tr.ctx.update(phase='prepare', tree=tree.level - 1, edge=None)
            k0 = len(tr.pds)
            try:
                o_pnt(tree)
            finally:
                tr.ctx.update(phase=None)
            # attribute every stored U row to the partial_derivative call that produced it (by content; the
            # results are corrected in place, the registry holds the same objects)
            for e in tree.edges:
                for s in (0, 1):
                    try:
                        row = np.asarray(e.U[s], dtype=float).ravel()
                    except Exception:      # noqa
                        continue
                    hit = [p for p in tr.pds[k0:] if np.asarray(p['res']).ravel().shape == row.shape
                           and np.array_equal(np.asarray(p['res'], dtype=float).ravel(), row)]
                    if len(hit) >= 1:
                        p = hit[0]
                        p.setdefault('stored', []).append((tree.level - 1, int(e.index), s))
                        tr.register(np.array(row, copy=True), ('H', tree.level - 1, int(e.index), p['x'], p['y']))
        T.Tree.prepare_next_tree = prepare

        o_gtm = self._saved['gtm']

        def get_tau_matrix(tree):
            okt = tr._saved['kt']
            lvl = tree.level - 1

            def kt(a, b, *aa, **kw):
                res = okt(a, b, *aa, **kw)
                tr.taus.append({'level': lvl, 'x': tr.lookup(a), 'y': tr.lookup(b), 'value': float(res[0]), 'pos': len(tr.events)})
                return res
            scipy.stats.kendalltau = kt
            try:
                out = o_gtm(tree)
            finally:
                scipy.stats.kendalltau = okt
            if isinstance(out, LogArr):
                tr.tau_mats[lvl] = out._aid
            return out
        T.Tree.get_tau_matrix = get_tau_matrix

        o_elik, o_tlik = self._saved['elik'], self._saved['tlik']

        def edge_lik(edge, uni_matrix):
            tr.ctx.update(edge=int(edge.index))
            tr.marks.append((len(tr.events), 'edge', tr.ctx['tree'], int(edge.index)))
            return o_elik(edge, uni_matrix)

        def tree_lik(tree, uni_matrix):
            tr.ctx.update(phase='lik', tree=tree.level - 1, edge=None)
            tr.marks.append((len(tr.events), 'tree', tree.level - 1, None))
            try:
                return o_tlik(tree, uni_matrix)
            finally:
                tr.marks.append((len(tr.events), 'tree-end', tree.level - 1, None))
                tr.ctx.update(phase=None)
        T.Edge.get_likelihood = edge_lik
        T.Tree.get_likelihood = tree_lik
        return self

    def __exit__(self, *exc):
        T, V, B = self.T, self.V, self.B
        T.np, V.np = self._saved['Tnp'], self._saved['Vnp']
        B.select_copula = self._saved['sel']
        self.S.kendalltau = self._saved['kt']
        T.Tree.prepare_next_tree = self._saved['pnt']
        T.Tree.get_tau_matrix = self._saved['gtm']
        T.Edge.get_likelihood = self._saved['elik']
        T.Tree.get_likelihood = self._saved['tlik']
        for c, o in self._saved['pd'].items():
            c.partial_derivative = o
        return False

    # ---- running
    def fit(self, vt, X, truncated):
        """VineCopula(vt).fit(X, truncated) with the marginal columns registered.  Returns (vine, exception)."""
        from copulas.multivariate import VineCopula
        with warnings.catch_warnings():
            warnings.simplefilter('ignore')
            v = VineCopula(vt)
            otv = v.train_vine
            tr = self

            def tv(tt):
                for i in range(v.n_var):
                    tr.register(np.array(v.u_matrix[:, i], dtype=float, copy=True), ('M', i))
                return otv(tt)
            v.train_vine = tv
            try:
                v.fit(X, truncated=truncated)
                exc = None
            except Exception as ex:      # noqa
                exc = ex
            finally:
                try:
                    del v.train_vine
                except AttributeError:
                    pass
        return v, exc

    def tau_records(self, v):
        """per level t (matrix built FROM tree t): matrix of None | (term, term): the cells of the logged np.empty array that were written,
        each attributed to the kendalltau call that immediately precedes the write (and returned the written value)"""
        out = {}
        for lvl, aid in self.tau_mats.items():
            ne = len(v.trees[lvl].edges)
            M = [[None] * ne for _ in range(ne)]
            calls = [c for c in self.taus if c['level'] == lvl]
            for k, ev in enumerate(self.events):
                if ev[0] == 'w' and ev[1] == aid:
                    try:
                        i, j = ev[2]
                        val = float(ev[3])
                        prev = [c for c in calls if c['pos'] <= k]
                        c = prev[-1] if prev else None
                        fresh = c is not None and not any(e2[0] == 'w' and e2[1] == aid for e2 in self.events[c['pos']:k])
                        if fresh and (c['value'] == val or (c['value'] != c['value'] and val != val)):
                            M[int(i)][int(j)] = (c['x'], c['y'])
                        else:
                            M[int(i)][int(j)] = ('ambiguous', 'written value is not the result of the preceding kendalltau call')
                    except Exception as ex:      # noqa
                        return {lvl: [[('ambiguous', f'unsupported write {ev[2]!r}: {ex}')]]}
            out[lvl] = M
        return out

    def likelihood(self, v, u):
        """traced get_likelihood on a ONE-ROW u.  Returns dict(value, exc, reads=[(t, r, c, term|None)], args=[[ (x, y) ]], garbage={term: value})"""
        self.reg = [(a, t) for a, t in self.reg if False]
        self.events.clear()
        self.marks.clear()
        k0 = len(self.pds)
        d = u.shape[1]
        ul = np.array(u, dtype=float, copy=True).view(LogArr)
        aid0 = len(self.arrays)
        ul._sink, ul._aid = self.events, aid0
        self.arrays.append(ul)
        for i in range(d):
            self.register(np.array(u[:, i], dtype=float, copy=True), ('M', i))
        # cells of the caller's matrix are all "written"
        written = {aid0: {(0, i): ('M', i) for i in range(d)}}
        garbage = {}
        reads = []
        tree_of_arr = {}
        # garbage terms must be registered BEFORE the library uses the value: walk the events lazily through a hook
        tr = self
        pos = [0]

        def drain():
            ev = tr.events
            while pos[0] < len(ev):
                k = pos[0]
                kind, aid, idx, val = ev[k]
                pos[0] += 1
                t, e = tr.ctx['tree'], tr.ctx['edge']
                if kind == 'w':
                    if isinstance(idx, tuple) and len(idx) == 2 and all(isinstance(x, (int, np.integer)) for x in idx):
                        written.setdefault(aid, {})[(int(idx[0]), int(idx[1]))] = tr.lookup(np.asarray(val, dtype=float))
                    else:
                        written.setdefault(aid, {})[('other', repr(idx))] = ('?',)
                elif tr.ctx['phase'] == 'lik' and e is not None:
                    if isinstance(idx, tuple) and len(idx) == 2 and isinstance(idx[0], slice) and idx[0] == slice(None) \
                            and isinstance(idx[1], (int, np.integer)):
                        cells = [(r, int(idx[1])) for r in range(tr.arrays[aid].shape[0])]
                    elif isinstance(idx, tuple) and len(idx) == 2 and all(isinstance(x, (int, np.integer)) for x in idx):
                        cells = [(int(idx[0]), int(idx[1]))]
                    else:
                        reads.append((t, e, 'unsupported-index', repr(idx), None))
                        continue
                    for (r, c) in cells:
                        w = written.get(aid, {})
                        if (r, c) in w:
                            reads.append((t, e, r, c, w[(r, c)]))
                        else:
                            g = ('G', t, r, c)
                            gv = float(np.ndarray.__getitem__(tr.arrays[aid], (r, c)))
                            garbage[g] = gv
                            tr.register(np.array([gv]), g)
                            reads.append((t, e, r, c, None))
        # drain at every partial_derivative / probability_density entry: wrap the hooks already installed
        B = self.B
        saved = {}

        def wrap_drain(cls, name):
            o = cls.__dict__[name]
            saved[(cls, name)] = o

            def f(self_, X, *a, **k):
                drain()
                return o(self_, X, *a, **k)
            setattr(cls, name, f)
        for c in [B] + list(B.subclasses()):
            for name in ('partial_derivative', 'probability_density'):
                if name in c.__dict__:
                    wrap_drain(c, name)
        val, exc = None, None
        self.distinct_garbage = True
        try:
            with warnings.catch_warnings():
                warnings.simplefilter('ignore')
                val = v.get_likelihood(ul)
        except Exception as ex:      # noqa
            exc = ex
        finally:
            self.distinct_garbage = False
            for (c, name), o in saved.items():
                setattr(c, name, o)
        drain()
        pds = self.pds[k0:]
        return {'value': None if val is None else float(val), 'exc': exc, 'reads': reads, 'garbage': garbage, 'pds': pds}


# ================================================================================================
# 3. provenance of terms, independent specification of the likelihood
# ================================================================================================
def prov(t):
    """F(i | S) reading of a term, or None"""
    if t[0] == 'M':
        return (t[1], frozenset())
    if t[0] != 'H':
        return None
    a, b = prov(t[3]), prov(t[4])
    if a is None or b is None or a[1] != b[1] or a[0] == b[0] or a[0] in b[1] or b[0] in a[1]:
        return None
    return (a[0], a[1] | {b[0]})


def show_term(t):
    if t is None:
        return 'unwritten'
    if t[0] == 'M':
        return f'u{t[1]}'
    if t[0] == 'G':
        return f'garbage[tree{t[1] + 1}:{t[2]},{t[3]}]'
    if t[0] == '?':
        return 'UNKNOWN-ARRAY'
    return f'h[{t[1] + 1}.{t[2]}]({show_term(t[3])}|{show_term(t[4])})'


def show_prov(p):
    return 'not-a-conditional-cdf' if p is None else f"F({p[0]}|{','.join(map(str, sorted(p[1])))})"


def enc(t):
    """nat-list code of Model.VineData.show_col"""
    if t is None:
        return None
    if t[0] == 'M':
        return [0, int(t[1])]
    if t[0] == 'G':
        return [2, int(t[1]), int(t[2]), int(t[3])]
    if t[0] == '?':
        return [9]
    return [1, int(t[1]), int(t[2])] + enc(t[3]) + enc(t[4])


def dec_col(l):
    """inverse of show_col: nat list -> term"""
    def go(i):
        if l[i] == 0:
            return ('M', l[i + 1]), i + 2
        if l[i] == 2:
            return ('G', l[i + 1], l[i + 2], l[i + 3]), i + 4
        x, j = go(i + 3)
        y, k = go(j)
        return ('H', l[i + 1], l[i + 2], x, y), k
    t, k = go(0)
    if k != len(l):
        raise ValueError('trailing codes')
    return t


def copula_of(edge):
    from copulas.bivariate.base import Bivariate
    c = Bivariate(copula_type=edge.name)
    c.theta = edge.theta
    return c


def eval_term(t, trees, u, garbage):
    """numeric value of a term with the library's own kernels"""
    if t[0] == 'M':
        return float(u[t[1]])
    if t[0] == 'G':
        return float(garbage[t])
    x, y = eval_term(t[3], trees, u, garbage), eval_term(t[4], trees, u, garbage)
    c = copula_of(trees[t[1]].edges[t[2]])
    return float(np.ravel(c.partial_derivative(np.array([[x, y]])))[0])


def sum_log_densities(args, trees, u, garbage):
    """independent evaluation of  sum_e log c_e(args_e)  for argument terms args[t][i] = (x, y)"""
    tot = 0.0
    for t, row in enumerate(args):
        for i, (x, y) in enumerate(row):
            c = copula_of(trees[t].edges[i])
            a, b = eval_term(x, trees, u, garbage), eval_term(y, trees, u, garbage)
            tot += math.log(float(np.sum(c.probability_density(np.array([[a, b]])))))
    return tot


def spec_likelihood(struct, trees, u):
    """the vine density of the property text: sum over the edges (L, R | D) of log c(F(L|D), F(R|D)), where
    F(i | S + {x}) = h_e(F(i|S) | F(x|S)) for the edge e = ({i, x} | S) of the vine.  struct = vinestruct.edges_of(trees)."""
    byset = {}
    for t, row in enumerate(struct):
        for (idx, (L, R), D, par) in row:
            byset[(frozenset((L, R)), frozenset(D))] = (t, idx)
    memo = {}

    def F(i, S):
        key = (i, S)
        if key in memo:
            return memo[key]
        if not S:
            memo[key] = float(u[i])
            return memo[key]
        for x in sorted(S):
            k = (frozenset((i, x)), S - {x})
            if k in byset:
                t, idx = byset[k]
                c = copula_of(trees[t].edges[idx])
                val = float(np.ravel(c.partial_derivative(np.array([[F(i, S - {x}), F(x, S - {x})]])))[0])
                memo[key] = val
                return val
        raise KeyError(f'no edge gives F({i}|{sorted(S)})')
    tot = 0.0
    for t, row in enumerate(struct):
        for (idx, (L, R), D, par) in row:
            S = frozenset(D)
            c = copula_of(trees[t].edges[idx])
            tot += math.log(float(np.sum(c.probability_density(np.array([[F(L, S), F(R, S)]])))))
    return tot


# ================================================================================================
# 4. the row sampler
# ================================================================================================
class TagFloat(float):
    """a float carrying the identity of the edge whose theta it is (the sampler copies edge.theta by assignment)"""
    tag = None


def sample_trace_real(v, first_ind, script=None):
    """the real _sample_row with np.random.uniform / randint, percent_point and ppfs replaced by recorders.
    script: optional list of values returned by the successive percent_point calls (default: values on which the clip is the identity).
    Returns dict(assign=[(var, term)], pp=[dict(edge, y, V, y_val, ret)], ppf_args=[(var, value)], err, row)"""
    from copulas.bivariate.base import Bivariate
    d = v.n_var
    unis = np.array([0.3 + 0.01 * i for i in range(d)])
    terms = {float(unis[i]): [0, i] for i in range(d)}
    calls, assign, ppf_args = [], [], []
    ou, oi = np.random.uniform, np.random.randint
    rnd = {'uniform': 0, 'randint': 0}

    def uni(a, b, n=None):
        rnd['uniform'] += 1
        return unis.copy()

    def rint(a, b=None, *aa, **kw):
        rnd['randint'] += 1
        return first_ind
    saved_theta = []
    for ti, t in enumerate(v.trees):
        for e in t.edges:
            saved_theta.append((e, e.theta))
            tf = TagFloat(e.theta)
            tf.tag = (ti, int(e.index), e.name)
            e.theta = tf

    def mk_pp(cls):
        o = cls.__dict__['percent_point']

        def pp(self, y, V):
            k = len(calls)
            val = (0.5 + (k + 1) * 1e-3) if script is None else float(script[k % len(script)])
            tag = getattr(self.theta, 'tag', None)
            edge = None if tag is None else (tag[0], tag[1])
            fam_ok = tag is not None and tname(self.copula_type) == tname(tag[2])
            yv, Vv = float(np.ravel(y)[0]), float(np.ravel(V)[0])
            ty, tV = terms.get(yv), terms.get(Vv)
            calls.append({'edge': edge, 'family_ok': fam_ok, 'y': ty, 'V': tV, 'y_val': yv, 'V_val': Vv, 'ret': val,
                          'shapes': (np.shape(y), np.shape(V))})
            if script is None and edge is not None and ty is not None and tV is not None:
                terms[val] = [1, edge[0], edge[1]] + ty + tV
            return np.array([val])
        cls.percent_point = pp
        return o
    classes = [c for c in [Bivariate] + list(Bivariate.subclasses()) if 'percent_point' in c.__dict__]
    saved = [(c, mk_pp(c)) for c in classes]
    oppfs = v.ppfs

    def mkq(i):
        def qf(x):
            xv = float(np.ravel(x)[0])
            assign.append((i, terms.get(xv)))
            ppf_args.append((i, xv))
            return np.array([100.0 + i])
        return qf
    v.ppfs = [mkq(i) for i in range(d)]
    row, err = None, None
    try:
        np.random.uniform, np.random.randint = uni, rint
        with warnings.catch_warnings():
            warnings.simplefilter('ignore')
            row = v._sample_row()
    except Exception as ex:      # noqa
        err = ex
    finally:
        np.random.uniform, np.random.randint = ou, oi
        for c, o in saved:
            c.percent_point = o
        v.ppfs = oppfs
        for e, th in saved_theta:
            e.theta = th
    return {'assign': assign, 'pp': calls, 'ppf_args': ppf_args, 'err': err, 'row': None if row is None else [float(x) for x in np.ravel(row)],
            'rnd': rnd}


# ================================================================================================
# 5. Coq rendering / parsing
# ================================================================================================
VM_IMPORTS = 'From Cop Require Import Lib.FinGraph Model.Vine Model.VineData.\nFrom CopRun Require Import Gen_vineclip.'
VM_SCOPE = 'Open Scope nat_scope.\n'


def parse(s):
    """printed Gallina value (lists, pairs, options, booleans, nats) -> Python (Some x -> ('S', x), None -> None)"""
    if s is None:
        return 'unevaluated'
    src = s.strip()
    pos = [0]

    def ws():
        while pos[0] < len(src) and src[pos[0]].isspace():
            pos[0] += 1

    def atom():
        ws()
        ch = src[pos[0]]
        if ch == '[':
            pos[0] += 1
            out = []
            ws()
            if src[pos[0]] == ']':
                pos[0] += 1
                return out
            while True:
                out.append(expr())
                ws()
                if src[pos[0]] == ';':
                    pos[0] += 1
                    continue
                if src[pos[0]] == ']':
                    pos[0] += 1
                    return out
                raise ValueError(f'list syntax at {pos[0]}')
        if ch == '(':
            pos[0] += 1
            items = [expr()]
            ws()
            while src[pos[0]] == ',':
                pos[0] += 1
                items.append(expr())
                ws()
            if src[pos[0]] != ')':
                raise ValueError(f'tuple syntax at {pos[0]}')
            pos[0] += 1
            if len(items) == 1:
                return items[0]
            # Coq prints left-nested pairs (a, b, c) = ((a, b), c): keep them flat
            return tuple(items)
        j = pos[0]
        while j < len(src) and (src[j].isalnum() or src[j] in "_'"):
            j += 1
        w = src[pos[0]:j]
        if not w:
            raise ValueError(f'unexpected {ch!r} at {pos[0]}')
        pos[0] = j
        if w == 'Some':
            return ('S', atom())
        if w == 'None':
            return None
        if w == 'true':
            return True
        if w == 'false':
            return False
        if w == 'nil':
            return []
        return int(w)

    def expr():
        return atom()
    try:
        v = expr()
        ws()
        if pos[0] != len(src):
            raise ValueError(f'trailing text at {pos[0]}')
        return v
    except Exception as ex:      # noqa
        return f'unparsed ({ex}): {src[:200]}'


def unsome(x):
    return x[1] if isinstance(x, tuple) and len(x) == 2 and x[0] == 'S' else x


def qfrac(x):
    f = Fraction(float(x))
    s = f'({abs(f.numerator)} # {f.denominator})'
    return s if f >= 0 else f'(- {s})'


# ================================================================================================
# 6. numeric statement of the property on a fitted vine (untraced; used by the oracles and the replay snippets)
# ================================================================================================
def library_epsilon():
    from copulas.utils import EPSILON
    return float(EPSILON)


def spec_columns(struct, trees, U):
    """F(i | S) as arrays over the training rows: the textbook recursion with the vine's own pair copulas and the library's
    0 -> EPSILON, 1 -> 1 - EPSILON correction after every h step.  Returns the function F(i, frozenset S)."""
    eps = library_epsilon()
    byset = {}
    for t, row in enumerate(struct):
        for (idx, (L, R), D, par) in row:
            byset[(frozenset((L, R)), frozenset(D))] = (t, idx)
    memo = {}

    def F(i, S):
        key = (i, S)
        if key in memo:
            return memo[key]
        if not S:
            memo[key] = np.asarray(U[:, i], dtype=float)
            return memo[key]
        for x in sorted(S):
            k = (frozenset((i, x)), S - {x})
            if k in byset:
                t, idx = byset[k]
                c = copula_of(trees[t].edges[idx])
                col = np.array(c.partial_derivative(np.column_stack([F(i, S - {x}), F(x, S - {x})])), dtype=float)
                col[col == 0] = eps
                col[col == 1] = 1 - eps
                memo[key] = col
                return col
        raise KeyError(f'no edge of the vine gives F({i}|{sorted(S)})')
    return F


def record_selects():
    """context manager: list of (X copy, name, theta) for every Bivariate.select_copula call"""
    class R:
        def __enter__(self):
            from copulas.bivariate.base import Bivariate
            self.B = Bivariate
            self.saved = Bivariate.__dict__['select_copula']
            self.calls = []
            o = self.saved.__func__
            rec = self

            def select(cls, X):
                with warnings.catch_warnings():
                    warnings.simplefilter('ignore')
                    res = o(cls, X)
                rec.calls.append((np.array(X, dtype=float, copy=True), res.copula_type, res.theta))
                return res
            Bivariate.select_copula = classmethod(select)
            return self

        def __exit__(self, *exc):
            self.B.select_copula = self.saved
            return False
    return R()


def plain_fit(vt, X, truncated, random_state=None, fill=0.123):
    """untraced VineCopula(vt).fit(X, truncated) with recorded select_copula inputs; np.empty of the vine modules filled with a constant
    (so that the structure of regular vines, which depends on unwritten tau cells (C16/F8), is reproducible)"""
    from copulas.multivariate import VineCopula
    with warnings.catch_warnings():
        warnings.simplefilter('ignore')
        v = VineCopula(vt, random_state=random_state)
        with poison(fill), record_selects() as rec:
            v.fit(X, truncated=truncated)
    return v, rec.calls


def numeric_flow(v, calls, struct=None):
    """the data-flow clause of the property, numerically: for every edge (L, R | D) the two columns handed to select_copula are
    F(L|D), F(R|D) (level 1: the two marginal columns in either order) and edge.U = [F(L|D+R), F(R|D+L)].
    Returns [(tree (1-based), edge index, (L, R, D), what)]."""
    from . import vinestruct as VS
    struct = struct or VS.edges_of(v.trees)
    F = spec_columns(struct, v.trees, v.u_matrix)
    bad, k = [], 0
    for t, row in enumerate(struct):
        for (idx, (L, R), D, par) in row:
            e = v.trees[t].edges[idx]
            S = frozenset(D)
            X = calls[k][0] if k < len(calls) else None
            k += 1
            try:
                fl, fr = F(L, S), F(R, S)
                ul, ur = F(L, S | {R}), F(R, S | {L})
            except KeyError as ex:
                bad.append((t + 1, idx, (L, R, D), f'not a regular vine: {ex}'))
                continue
            if X is None or X.shape != (len(fl), 2):
                bad.append((t + 1, idx, (L, R, D), 'no select_copula call with an (n, 2) input recorded for this edge'))
            else:
                ok = np.array_equal(X[:, 0], fl) and np.array_equal(X[:, 1], fr)
                if t == 0:
                    ok = ok or (np.array_equal(X[:, 0], fr) and np.array_equal(X[:, 1], fl))
                if not ok:
                    d0 = float(np.max(np.abs(X[:, 0] - fl)))
                    d1 = float(np.max(np.abs(X[:, 1] - fr)))
                    sw = np.array_equal(X[:, 0], fr) and np.array_equal(X[:, 1], fl)
                    bad.append((t + 1, idx, (L, R, D), 'select_copula received ' + ('(F(R|D), F(L|D)): the two columns swapped' if sw else
                                f'columns that are not (F(L|D), F(R|D)): max |col0 - F({L}|{D})| = {d0:.3g}, max |col1 - F({R}|{D})| = {d1:.3g}')))
            Ue = np.asarray(e.U, dtype=float)
            if Ue.shape != (2, len(fl)) or not (np.array_equal(Ue[0], ul) and np.array_equal(Ue[1], ur)):
                dd = 'shape ' + str(Ue.shape) if Ue.shape != (2, len(fl)) else \
                    f'max |U[0] - F({L}|{sorted(S | {R})})| = {float(np.max(np.abs(Ue[0] - ul))):.3g}, max |U[1] - F({R}|{sorted(S | {L})})| = {float(np.max(np.abs(Ue[1] - ur))):.3g}'
                bad.append((t + 1, idx, (L, R, D), 'edge.U is not [F(L|D+R), F(R|D+L)]: ' + dd))
    return bad


def fixed_u(d, k=0):
    """one row of (0,1)^d with pairwise distinct entries (k = 0..4 selects the row)"""
    return np.array([[(i + 0.6 + 0.07 * (k % 5) + 0.013 * ((i * 3 + k) % 4)) / (d + 0.5) for i in range(d)]])


def likelihood_report(v, u, struct=None):
    """get_likelihood under different contents of np.empty, twice, after another call, and the specification value"""
    from . import vinestruct as VS
    struct = struct or VS.edges_of(v.trees)
    out = {}

    def call(x):
        with warnings.catch_warnings():
            warnings.simplefilter('ignore')
            try:
                return float(v.get_likelihood(np.array(x, dtype=float, copy=True)))
            except Exception as ex:      # noqa
                return f'{type(ex).__name__}: {ex}'
    with poison(float('nan')):
        out['nan'] = call(u)
        out['nan_again'] = call(u)
    with poison(0.123):
        out['0.123'] = call(u)
        call(fixed_u(u.shape[1], 3))
        out['0.123_after_other_call'] = call(u)
    with poison(0.77):
        out['0.77'] = call(u)
    out['plain'] = call(u)
    out['plain_again'] = call(u)
    try:
        out['spec'] = spec_likelihood(struct, v.trees, u[0])
    except Exception as ex:      # noqa
        out['spec'] = f'{type(ex).__name__}: {ex}'
    return out


def same_value(a, b):
    if isinstance(a, str) or isinstance(b, str):
        return a == b
    return a == b or (a != a and b != b)


def close(a, b, rel=1e-9):
    if isinstance(a, str) or isinstance(b, str) or a != a or b != b:
        return False
    return abs(a - b) <= rel * (1 + abs(a) + abs(b))


# ---- replay entry points (used by the `repro` snippets; a non-empty result = the violation manifests)
def _table(tseed, d, n, kind):
    from . import vinestruct as VS
    return VS.make_table(tseed, d, n, kind)


def repro_columns(vt, tseed, d, n, kind, t, only_tree=None):
    X = _table(tseed, d, n, kind)
    v, calls = plain_fit(vt, X, t)
    bad = numeric_flow(v, calls)
    return [f'tree {b[0]} edge {b[1]} ({b[2][0]},{b[2][1]}|{b[2][2]}): {b[3]}' for b in bad if only_tree is None or b[0] == only_tree]


def repro_likelihood(vt, tseed, d, n, kind, t):
    X = _table(tseed, d, n, kind)
    v, calls = plain_fit(vt, X, t)
    r = likelihood_report(v, fixed_u(d))
    out = []
    keys = ['nan', 'nan_again', '0.123', '0.123_after_other_call', '0.77']
    if not all(same_value(r[k], r['nan']) for k in keys):
        out.append('get_likelihood(u) depends on the content of np.empty / on earlier calls: ' + ', '.join(f'{k}: {r[k]}' for k in keys))
    if not close(r['0.123'], r['spec']):
        out.append(f"get_likelihood(u) = {r['0.123']} but the sum of log pair-copula densities at the h-propagated arguments is {r['spec']}")
    return out


def repro_sampler(vt, tseed, d, n, kind, t, rows=3, seed=5):
    X = _table(tseed, d, n, kind)
    v, calls = plain_fit(vt, X, t, random_state=seed)
    out = []
    try:
        with warnings.catch_warnings():
            warnings.simplefilter('ignore')
            s = v.sample(rows)
    except Exception as ex:      # noqa
        return [f'sample({rows}) raised {type(ex).__name__}: {ex}']
    if s.shape != (rows, d):
        out.append(f'sample({rows}) has shape {s.shape}')
    if list(s.columns) != list(X.columns):
        out.append(f'columns {list(s.columns)} != training columns {list(X.columns)}')
    if not np.isfinite(s.to_numpy(dtype=float)).all():
        out.append('missing / non-finite values in the sample')
    return out
