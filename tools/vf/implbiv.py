"""In-process access to /repo's bivariate copulas (PYTHONPATH is forced to /repo by the driver)."""
import warnings
import numpy as np

warnings.filterwarnings('ignore')


def make(family, theta, tau=None):
    from copulas.bivariate import Bivariate
    c = Bivariate(copula_type=family)
    c.theta = theta
    c.tau = tau
    return c


THETA_RANGES = {'clayton': (0.05, 8.0), 'gumbel': (1.02, 5.0), 'frank': (-18.2, 18.2)}


def sample_theta(rng, family, edge=False):
    lo, hi = THETA_RANGES[family]
    if family == 'frank':
        if edge:
            return float(rng.choice([-18.2, -0.05, 0.05, 18.2, 1e-3, -1e-3]))
        t = rng.uniform(0.05, 18.2)
        return float(t if rng.random() < 0.5 else -t)
    if edge:
        return float(rng.choice([lo, hi]))
    return float(rng.uniform(lo, hi))


def sample_point(rng, kind):
    """kind: interior | near (within 1e-12..1e-6 of an edge) | edge (exact 0/1)"""
    def coord(k):
        if k == 'interior':
            return float(rng.uniform(1e-4, 1 - 1e-4))
        if k == 'near':
            d = 10.0 ** rng.uniform(-12, -5)
            return float(d if rng.random() < 0.5 else 1 - d)
        return float(rng.choice([0.0, 1.0]))
    if kind == 'interior':
        return coord('interior'), coord('interior')
    ks = [kind, rng.choice(['interior', kind])]
    rng.shuffle(ks)
    return coord(ks[0]), coord(ks[1])
