"""GaussianMultivariate scoring / sampling: generation of the Coq definitions from the current source
(strict, fail-closed shape translators), a parser for terms printed by Coq, and the shared harness
pieces (model zoo, query containers, oracle capture) of properties C13 and C01.

Generated files (written into the build directory on every run):
  Gen_gm_scores.v   _transform_to_normal, probability_density, cumulative_distribution   (gaussian.py)
                    log_probability_density                                               (base.py)
  Gen_gm_sample.v   _get_normal_samples (conditions is None), sample (unconditional)      (gaussian.py)
The definitions are written in terms of Cop.Model.Scores / Cop.Model.Concord so that the bridge lemmas of
coq/Props/C13.v and coq/Props/C01.v re-prove, on every run, that the current source has the modelled shape.
Every deviation from the recognised statement shapes raises Unsupported (fail-closed)."""
import ast
from . import srcnorm as _srcnorm
import itertools
import os
import re

import numpy as np

from . import py2coq as P
from .core import REPO

GAUSS = os.path.join(REPO, 'copulas', 'multivariate', 'gaussian.py')
BASE = os.path.join(REPO, 'copulas', 'multivariate', 'base.py')
EPS32 = float(np.finfo(np.float32).eps)          # copulas.utils.EPSILON, Lib.NumpyR.EPSILON = 2^-23

Unsupported = P.Unsupported


# ======================================================================================================
# translators
# ======================================================================================================
def _u(n):
    return ast.unparse(n)


def _body(f):
    return [s for s in f.body if not (isinstance(s, ast.Expr) and isinstance(s.value, ast.Constant)
                                      and isinstance(s.value.value, str))]


def _plain_args(f, names, defaults=None):
    a = f.args
    if a.vararg or a.kwarg or a.kwonlyargs or a.posonlyargs or [x.arg for x in a.args] != names:
        raise Unsupported(f'{f.name}: signature is ({_u(a)}), expected {names}')
    d = [_u(x) for x in a.defaults]
    if d != (defaults or []):
        raise Unsupported(f'{f.name}: defaults are {d}, expected {defaults or []}')


def _need(cond, what):
    if not cond:
        raise Unsupported(what)


def _zip_roles(loop, where):
    """`for a, b in zip(self.columns, self.univariates)` (either order): returns (label_name, univariate_name).
    The pairing is positional, so zip(A, B) with targets (a, b) and zip(B, A) with targets (b, a) denote the same
    list of pairs  combine columns univariates."""
    _need(isinstance(loop, ast.For) and not loop.orelse, f'{where}: expected a for loop without else')
    it = loop.iter
    _need(isinstance(it, ast.Call) and _u(it.func) == 'zip' and len(it.args) == 2 and not it.keywords,
          f'{where}: loop iterates over `{_u(it)}`, expected zip(self.columns, self.univariates)')
    _need(isinstance(loop.target, ast.Tuple) and len(loop.target.elts) == 2
          and all(isinstance(e, ast.Name) for e in loop.target.elts), f'{where}: loop target `{_u(loop.target)}`')
    srcs = [_u(a) for a in it.args]
    _need(sorted(srcs) == ['self.columns', 'self.univariates'],
          f'{where}: zip arguments are {srcs}, expected self.columns and self.univariates')
    names = [e.id for e in loop.target.elts]
    _need(names[0] != names[1], f'{where}: duplicated loop variable')
    role = dict(zip(srcs, names))
    return role['self.columns'], role['self.univariates']


def translate_transform_to_normal():
    mod, cls, f = P.find_method(GAUSS, 'GaussianMultivariate', '_transform_to_normal')
    _need(not f.decorator_list, '_transform_to_normal is decorated')
    _plain_args(f, ['self', 'X'])
    X = 'X'
    b = _body(f)
    _need(len(b) == 4, '_transform_to_normal: expected 4 statements (container dispatch, U = [], loop, return), found '
          + ' ;; '.join(_u(s)[:50] for s in b))
    # ---- 1. container dispatch
    s = b[0]
    _need(isinstance(s, ast.If) and _u(s.test) == f'isinstance({X}, pd.Series)',
          f'container dispatch: first test is `{_u(getattr(s, "test", s))}`')
    _need([_u(x) for x in s.body] == [f'{X} = {X}.to_frame().T'],
          'Series branch: ' + ' ;; '.join(_u(x) for x in s.body))
    _need(len(s.orelse) == 1 and isinstance(s.orelse[0], ast.If), 'container dispatch: expected `elif`')
    e = s.orelse[0]
    _need(_u(e.test) == f'not isinstance({X}, pd.DataFrame)' and not e.orelse,
          f'container dispatch: elif test `{_u(e.test)}` / unexpected else')
    _need(len(e.body) == 2, 'array branch: expected 2 statements')
    w = e.body[0]
    _need(isinstance(w, ast.If) and _u(w.test) == f'len({X}.shape) == 1' and not w.orelse
          and [_u(x) for x in w.body] == [f'{X} = [{X}]'], 'array branch: 1-d wrapping `' + _u(w)[:80] + '`')
    d = e.body[1]
    _need(isinstance(d, ast.Assign) and _u(d.targets[0]) == X and isinstance(d.value, ast.Call)
          and _u(d.value.func) == 'pd.DataFrame' and [_u(a) for a in d.value.args] == [X]
          and [k.arg for k in d.value.keywords] == ['columns'], 'array branch: `' + _u(d) + '`')
    hdr_src = _u(d.value.keywords[0].value)
    _need(hdr_src == 'self.columns', f'array branch: DataFrame built with columns={hdr_src}, expected self.columns')
    # ---- 2. accumulator
    a = b[1]
    _need(isinstance(a, ast.Assign) and isinstance(a.targets[0], ast.Name) and _u(a.value) == '[]',
          'accumulator initialisation: `' + _u(a) + '`')
    acc = a.targets[0].id
    # ---- 3. loop
    loop = b[2]
    lab, uni = _zip_roles(loop, '_transform_to_normal')
    _need(len(loop.body) == 1 and isinstance(loop.body[0], ast.If), 'loop body: expected a single `if`')
    g = loop.body[0]
    _need(_u(g.test) == f'{lab} in {X}' and not g.orelse, f'loop guard `{_u(g.test)}` / unexpected else')
    _need(len(g.body) == 2, 'guarded body: expected 2 statements')
    ca = g.body[0]
    _need(isinstance(ca, ast.Assign) and isinstance(ca.targets[0], ast.Name) and _u(ca.value) == f'{X}[{lab}]',
          'column lookup: `' + _u(ca) + f'`, expected <name> = {X}[{lab}]')
    col = ca.targets[0].id
    ap = g.body[1]
    _need(isinstance(ap, ast.Expr) and isinstance(ap.value, ast.Call) and _u(ap.value.func) == f'{acc}.append'
          and len(ap.value.args) == 1 and not ap.value.keywords, 'append: `' + _u(ap) + '`')
    sc = ap.value.args[0]
    _need(isinstance(sc, ast.Call) and isinstance(sc.func, ast.Attribute) and sc.func.attr == 'clip'
          and len(sc.args) == 2 and not sc.keywords, 'score expression is not `<cdf>.clip(lo, hi)`: `' + _u(sc) + '`')
    inner = sc.func.value
    _need(_u(inner) == f'{uni}.cdf({col}.to_numpy())', f'clipped expression is `{_u(inner)}`, expected {uni}.cdf({col}.to_numpy())')
    tr = P.ExprTr(P.Scope('GaussianMultivariate', {}, None, {}, {'EPSILON': 'EPSILON'}, {}))
    lo, hi = tr.e(sc.args[0]), tr.e(sc.args[1])
    # ---- 4. return
    r = b[3]
    _need(isinstance(r, ast.Return) and _u(r.value) == f'stats.norm.ppf(np.column_stack({acc}))',
          'return: `' + _u(r) + '`')
    return f'''
(* ---------- GaussianMultivariate._transform_to_normal ---------- *)
(* {uni}.cdf({col}.to_numpy()).clip(lo, hi) followed by stats.norm.ppf, entry-wise *)
Definition gm_clip_lo : R := {lo}.
Definition gm_clip_hi : R := {hi}.
Definition gm_score (norm_ppf : R -> R) (cdf : R -> R) (x : R) : R :=
  norm_ppf (np_clip (cdf x) gm_clip_lo gm_clip_hi).

Section GmScores.
  Variables label V S : Type.
  Variable label_eqb : label -> label -> bool.

  (* if isinstance(X, pd.Series): X = X.to_frame().T
     elif not isinstance(X, pd.DataFrame): [if len(X.shape) == 1: X = [X]]; X = pd.DataFrame(X, columns={hdr_src}) *)
  Definition gm_to_frame (columns : list label) (X : container label V) : result (frame label V) :=
    match X with
    | CSeries items => Ok (series_to_frame_T label V items)
    | CFrame f => Ok f
    | CArray1 xs => pd_DataFrame_rows label V columns [xs]
    | CArray2 rws => pd_DataFrame_rows label V columns rws
    end.

  (* for {lab}, {uni} in zip(self.columns, self.univariates):
         if {lab} in X: {col} = X[{lab}]; {acc}.append(score of {col} under {uni})          -- one row of column_stack({acc}) *)
  Definition gm_score_row (cu : list (label * (V -> S))) (hdr : list label) (r : list V) : list S :=
    flat_map (fun cu_j =>
                let {lab} := fst cu_j in
                let {uni} := snd cu_j in
                match cell label V label_eqb hdr r {lab} with
                | Some {col} => [{uni} {col}]
                | None => []
                end) cu.

  (* np.column_stack({acc}) raises ValueError for an empty list *)
  Definition gm_transform_frame (cu : list (label * (V -> S))) (f : frame label V) : result (list (list S)) :=
    if negb (wf_frame label V f) then Err IllFormedFrame
    else match present label V S label_eqb cu (header f) with
         | [] => Err ValueError_no_arrays
         | _ => Ok (map (gm_score_row cu (header f)) (rows f))
         end.

  Definition gm_transform_to_normal (columns : list label) (univariates : list (V -> S))
             (X : container label V) : result (list (list S)) :=
    match gm_to_frame columns X with
    | Err e => Err e
    | Ok f => gm_transform_frame (combine columns univariates) f
    end.
'''


def _density(meth):
    """probability_density / cumulative_distribution: check_fit; t = _transform_to_normal(X);
    return stats.multivariate_normal.<fn>(t, cov=self.correlation[, allow_singular=<bool>])"""
    mod, cls, f = P.find_method(GAUSS, 'GaussianMultivariate', meth)
    _need(not f.decorator_list, f'{meth} is decorated')
    _plain_args(f, ['self', 'X'])
    b = _body(f)
    _need(len(b) == 3 and _u(b[0]) == 'self.check_fit()', f'{meth}: expected check_fit; transform; return — found '
          + ' ;; '.join(_u(s)[:60] for s in b))
    t = b[1]
    _need(isinstance(t, ast.Assign) and isinstance(t.targets[0], ast.Name)
          and _u(t.value) == 'self._transform_to_normal(X)', f'{meth}: `{_u(t)}`')
    tv = t.targets[0].id
    r = b[2]
    _need(isinstance(r, ast.Return) and isinstance(r.value, ast.Call), f'{meth}: return `{_u(r)}`')
    c = r.value
    m = re.fullmatch(r'stats\.multivariate_normal\.(\w+)', _u(c.func))
    _need(m is not None, f'{meth}: returns `{_u(c.func)}(...)`, expected stats.multivariate_normal.<fn>')
    fn = m.group(1)
    _need([_u(a) for a in c.args] == [tv], f'{meth}: positional arguments {[_u(a) for a in c.args]}, expected [{tv}]')
    kw = {k.arg: k.value for k in c.keywords}
    _need(None not in kw and set(kw) <= {'cov', 'allow_singular'} and len(kw) == len(c.keywords),
          f'{meth}: keyword arguments {sorted(str(k) for k in kw)}')
    _need('cov' in kw and _u(kw['cov']) == 'self.correlation',
          f"{meth}: cov={_u(kw['cov']) if 'cov' in kw else '<default 1>'}, expected self.correlation")
    allow = False
    if 'allow_singular' in kw:
        v = kw['allow_singular']
        _need(isinstance(v, ast.Constant) and isinstance(v.value, bool), f'{meth}: allow_singular={_u(v)}')
        allow = v.value
    return fn, allow, tv


def translate_densities():
    fn_p, al_p, tv_p = _density('probability_density')
    fn_c, al_c, tv_c = _density('cumulative_distribution')
    # log_probability_density, pdf, cdf are inherited from Multivariate (not overridden)
    mod = _srcnorm.parse_file(GAUSS)
    cls = next(n for n in mod.body if isinstance(n, ast.ClassDef) and n.name == 'GaussianMultivariate')
    _need([_u(x) for x in cls.bases] == ['Multivariate'], 'GaussianMultivariate bases: ' + str([_u(x) for x in cls.bases]))
    over = [n.name for n in cls.body if isinstance(n, ast.FunctionDef)
            and n.name in ('log_probability_density', 'pdf', 'cdf', 'check_fit')]
    _need(not over, f'GaussianMultivariate overrides {over}')
    _, _, lf = P.find_method(BASE, 'Multivariate', 'log_probability_density')
    _need(not lf.decorator_list, 'log_probability_density is decorated')
    _plain_args(lf, ['self', 'X'])
    lb = _body(lf)
    _need(len(lb) == 1 and isinstance(lb[0], ast.Return) and isinstance(lb[0].value, ast.Call),
          'Multivariate.log_probability_density: ' + ' ;; '.join(_u(s) for s in lb))
    lc = lb[0].value
    m = re.fullmatch(r'np\.(\w+)', _u(lc.func))
    _need(m is not None and not lc.keywords and [_u(a) for a in lc.args] == ['self.probability_density(X)'],
          'Multivariate.log_probability_density returns `' + _u(lc) + '`')
    logfn = m.group(1)
    for alias, target in (('pdf', 'probability_density'), ('cdf', 'cumulative_distribution')):
        _, _, af = P.find_method(BASE, 'Multivariate', alias)
        _plain_args(af, ['self', 'X'])
        ab = _body(af)
        _need(not af.decorator_list and [_u(s) for s in ab] == [f'return self.{target}(X)'],
              f'Multivariate.{alias}: ' + ' ;; '.join(_u(s) for s in ab))

    def one(name, fn, allow, tv):
        return f'''
  (* self.check_fit(); {tv} = self._transform_to_normal(X);
     return stats.multivariate_normal.{fn}({tv}, cov=self.correlation{", allow_singular=True" if allow else ""}) *)
  Definition {name} (m : model label V S corr) (X : container label V) : result (list P) :=
    if negb (fitted _ _ _ _ m) then Err NotFittedError
    else match gm_transform_to_normal (columns _ _ _ _ m) (univariates _ _ _ _ m) X with
         | Err e => Err e
         | Ok {tv} => scipy_mvn "{fn}"%string {tv} (correlation _ _ _ _ m) {"true" if allow else "false"}
         end.
'''
    return f'''
  (* ---------- probability_density / cumulative_distribution (gaussian.py), log_probability_density (base.py) ---------- *)
  Variables corr P : Type.
  (* scipy.stats.multivariate_normal.<fn>(x, cov=cov, allow_singular=flag): one value per row, or an error *)
  Variable scipy_mvn : string -> list (list S) -> corr -> bool -> result (list P).
  (* np.<f> applied entry-wise *)
  Variable np_unary : string -> P -> P.
{one('gm_probability_density', fn_p, al_p, tv_p)}{one('gm_cumulative_distribution', fn_c, al_c, tv_c)}
  (* Multivariate.log_probability_density: return np.{logfn}(self.probability_density(X)); pdf/cdf are plain aliases *)
  Definition gm_log_probability_density (m : model label V S corr) (X : container label V) : result (list P) :=
    match gm_probability_density m X with
    | Err e => Err e
    | Ok ps => Ok (map (np_unary "{logfn}"%string) ps)
    end.
End GmScores.
'''


SCORES_HEADER = '''(* GENERATED by tools/vf/gmscores.py from copulas/multivariate/gaussian.py and copulas/multivariate/base.py
   -- regenerated from the current source on every run; do not edit *)
From Coq Require Import String.
From Coq Require Import Reals List Bool Arith.
From Cop Require Import Lib.NumpyR Model.Scores.
Import ListNotations.

(* ---------- fixed denotations of the pandas container operations that occur below (trusted; validated by the
   correspondence check) ---------- *)
Section GmDenotations.
  Variables label V : Type.
  (* pd.DataFrame(rows, columns=hdr): positional; ValueError when a row has another width *)
  Definition pd_DataFrame_rows (hdr : list label) (rws : list (list V)) : result (frame label V) :=
    if forallb (fun r => length r =? length hdr) rws then Ok (Build_frame hdr rws) else Err ValueError_shape.
  (* Series.to_frame().T: one row, header = the Series index *)
  Definition series_to_frame_T (items : list (label * V)) : frame label V :=
    Build_frame (map fst items) [map snd items].
End GmDenotations.
'''


def translate_sample():
    mod, cls, g = P.find_method(GAUSS, 'GaussianMultivariate', '_get_normal_samples')
    _need(not g.decorator_list, '_get_normal_samples is decorated')
    _plain_args(g, ['self', 'num_rows', 'conditions'])
    b = _body(g)
    _need(len(b) == 3 and isinstance(b[0], ast.If) and _u(b[0].test) == 'conditions is None' and b[0].orelse,
          '_get_normal_samples: expected `if conditions is None: ... else: ...; samples = ...; return ...`')
    lets, env = [], {}
    for st in b[0].body:
        _need(isinstance(st, ast.Assign) and len(st.targets) == 1 and isinstance(st.targets[0], ast.Name),
              '_get_normal_samples (unconditional branch): `' + _u(st) + '`')
        nm, src = st.targets[0].id, _u(st.value)
        if src == 'self.correlation':
            term, ty = 'g_correlation _ _ _ _ m', 'corr'
        elif src == 'self.columns':
            term, ty = 'g_columns _ _ _ _ m', 'labels'
        else:
            mm = re.fullmatch(r'np\.zeros\(len\((\w+)\)\)', src)
            _need(mm is not None and env.get(mm.group(1)) == 'labels',
                  f'_get_normal_samples (unconditional branch): `{_u(st)}` is not one of self.correlation, self.columns, '
                  'np.zeros(len(<columns>))')
            term, ty = f'NpZeros (length {mm.group(1)})', 'means'
        _need(nm not in env and nm not in ('m', 'num_rows'), f'rebinding of {nm}')
        env[nm] = ty
        lets.append((nm, term, _u(st)))
    d = b[1]
    _need(isinstance(d, ast.Assign) and isinstance(d.targets[0], ast.Name) and isinstance(d.value, ast.Call)
          and _u(d.value.func) == 'np.random.multivariate_normal', '_get_normal_samples: draw `' + _u(d) + '`')
    smp = d.targets[0].id
    pos = [_u(a) for a in d.value.args]
    kw = {k.arg: _u(k.value) for k in d.value.keywords}
    _need(len(pos) == 2 and kw == {'size': 'num_rows'} or (len(pos) == 3 and not kw and pos[2] == 'num_rows'),
          f'_get_normal_samples: draw arguments {pos} {kw}')
    mean_a, cov_a = pos[0], pos[1]
    _need(env.get(mean_a) == 'means' and env.get(cov_a) == 'corr',
          f'_get_normal_samples: draw called with mean={mean_a} ({env.get(mean_a)}), cov={cov_a} ({env.get(cov_a)})')
    r = b[2]
    _need(isinstance(r, ast.Return) and isinstance(r.value, ast.Call) and _u(r.value.func) == 'pd.DataFrame'
          and [_u(a) for a in r.value.args] == [smp] and [k.arg for k in r.value.keywords] == ['columns'],
          '_get_normal_samples: return `' + _u(r) + '`')
    hdr = _u(r.value.keywords[0].value)
    _need(env.get(hdr) == 'labels', f'_get_normal_samples: frame columns={hdr}')
    let_txt = '\n'.join(f'    let {nm} := {term} in          (* {src} *)' for nm, term, src in lets)

    # ---- sample
    _, _, f = P.find_method(GAUSS, 'GaussianMultivariate', 'sample')
    decs = [_u(x) for x in f.decorator_list]
    _need(decs == ['random_state'], f'sample decorators {decs}, expected [random_state]')
    _plain_args(f, ['self', 'num_rows', 'conditions'], ['1', 'None'])
    sb = _body(f)
    _need(len(sb) == 5 and _u(sb[0]) == 'self.check_fit()', 'sample: expected 5 statements starting with self.check_fit()')
    s1 = sb[1]
    _need(isinstance(s1, ast.Assign) and isinstance(s1.targets[0], ast.Name)
          and _u(s1.value) == 'self._get_normal_samples(num_rows, conditions)', 'sample: `' + _u(s1) + '`')
    sv = s1.targets[0].id
    s2 = sb[2]
    _need(isinstance(s2, ast.Assign) and isinstance(s2.targets[0], ast.Name) and _u(s2.value) == '{}',
          'sample: `' + _u(s2) + '`')
    out = s2.targets[0].id
    loop = sb[3]
    lab, uni = _zip_roles(loop, 'sample')
    _need(len(loop.body) == 1 and isinstance(loop.body[0], ast.If), 'sample loop body: expected a single if/else')
    br = loop.body[0]
    # with conditions=None both accepted guards are false, so the else branch is the unconditional sampler
    _need(_u(br.test) in (f'conditions and {lab} in conditions', f'conditions is not None and {lab} in conditions'),
          f'sample: branch test `{_u(br.test)}`')
    eb = br.orelse
    _need(len(eb) == 2, 'sample: unconditional branch should have 2 statements')
    c1, c2 = eb
    _need(isinstance(c1, ast.Assign) and isinstance(c1.targets[0], ast.Name)
          and _u(c1.value) == f'stats.norm.cdf({sv}[{lab}])', 'sample: `' + _u(c1) + '`')
    cv = c1.targets[0].id
    _need(isinstance(c2, ast.Assign) and _u(c2.targets[0]) == f'{out}[{lab}]'
          and _u(c2.value) == f'{uni}.percent_point({cv})', 'sample: `' + _u(c2) + '`')
    ret = sb[4]
    _need(isinstance(ret, ast.Return) and _u(ret.value) == f'pd.DataFrame(data={out})', 'sample: return `' + _u(ret) + '`')
    return f'''(* GENERATED by tools/vf/gmscores.py from copulas/multivariate/gaussian.py -- regenerated from the current source
   on every run; do not edit *)
From Coq Require Import List Bool Arith.
From Cop Require Import Model.Concord.
Import ListNotations.

(* np.zeros(n) as the `mean` argument of np.random.multivariate_normal *)
Inductive means_arg := NpZeros (n : nat).

(* ---------- GaussianMultivariate._get_normal_samples (conditions is None) and sample (conditions=None) ---------- *)
Section GmSample.
  Variables label Zt U V corr : Type.
  Variable label_eqb : label -> label -> bool.
  Variable norm_cdf : Zt -> U.                                           (* stats.norm.cdf, entry-wise *)
  (* np.random.multivariate_normal(mean, cov, size=n): the rows of the (n, d) array *)
  Variable np_random_multivariate_normal : means_arg -> corr -> nat -> list (list Zt).

  Definition gm_get_normal_samples (m : gmodel label U V corr) (num_rows : nat)
    : sresult (list label * list (list Zt)) :=
{let_txt}
    let {smp} := np_random_multivariate_normal {mean_a} {cov_a} num_rows in          (* {_u(d)} *)
    (* return pd.DataFrame({smp}, columns={hdr}) *)
    if negb (forallb (fun r => length r =? length {hdr}) {smp}) then SErr ValueError_shape
    else SOk ({hdr}, {smp}).

  (* for {lab}, {uni} in zip(self.columns, self.univariates):      [if {_u(br.test)}: ... else: -- conditions is None: the else branch]
         {cv} = stats.norm.cdf({sv}[{lab}]); {out}[{lab}] = {uni}.percent_point({cv}) *)
  Fixpoint gm_sample_loop (hdr : list label) (rws : list (list Zt))
           (cu : list (label * (U -> V))) ({out} : list (label * list V))
    : sresult (list (label * list V)) :=
    match cu with
    | [] => SOk {out}
    | cu_j :: tl =>
        let {lab} := fst cu_j in
        let {uni} := snd cu_j in
        match frame_column label Zt label_eqb hdr rws {lab} with
        | None => SErr KeyError
        | Some col =>
            let {cv} := map norm_cdf col in
            gm_sample_loop hdr rws tl (dict_set label label_eqb {lab} (map {uni} {cv}) {out})
        end
    end.

  (* self.check_fit(); {sv} = self._get_normal_samples(num_rows, conditions); {out} = {{}}; loop;
     return pd.DataFrame(data={out}) *)
  Definition gm_sample (m : gmodel label U V corr) (num_rows : nat) : sresult (list (label * list V)) :=
    if negb (g_fitted _ _ _ _ m) then SErr NotFittedError
    else match gm_get_normal_samples m num_rows with
         | SErr e => SErr e
         | SOk {sv} =>
             gm_sample_loop (fst {sv}) (snd {sv})
                            (combine (g_columns _ _ _ _ m) (g_univariates _ _ _ _ m)) []
         end.
End GmSample.
'''


def translate_fit():
    """GaussianMultivariate._fit_columns and the attribute stores of fit: label j and univariate j are appended in the
    same iteration of `for column_name, column in X.items()`, and fit stores the two lists unchanged."""
    _, _, f = P.find_method(GAUSS, 'GaussianMultivariate', '_fit_columns')
    _need(not f.decorator_list, '_fit_columns is decorated')
    _plain_args(f, ['self', 'X'])

    def nolog(stmts):
        return [s for s in stmts if not (isinstance(s, ast.Expr) and isinstance(s.value, ast.Call) and _u(s.value.func).startswith('LOGGER.'))]
    b = nolog(_body(f))
    _need(len(b) == 4, '_fit_columns: expected two list initialisations, a loop and a return; found ' + ' ;; '.join(_u(s)[:40] for s in b))
    accs = []
    for s in b[:2]:
        _need(isinstance(s, ast.Assign) and isinstance(s.targets[0], ast.Name) and _u(s.value) == '[]', '_fit_columns: `' + _u(s) + '`')
        accs.append(s.targets[0].id)
    loop = b[2]
    _need(isinstance(loop, ast.For) and not loop.orelse and _u(loop.iter) == 'X.items()' and isinstance(loop.target, ast.Tuple)
          and len(loop.target.elts) == 2 and all(isinstance(e, ast.Name) for e in loop.target.elts),
          '_fit_columns: loop header `for ' + _u(loop.target) + ' in ' + _u(loop.iter) + '`')
    cn, cv = (e.id for e in loop.target.elts)
    lb = nolog(loop.body)
    _need(len(lb) == 4, '_fit_columns: loop body has ' + str(len(lb)) + ' statements, expected 4')
    d0 = lb[0]
    _need(isinstance(d0, ast.Assign) and isinstance(d0.targets[0], ast.Name)
          and _u(d0.value) == f'self._get_distribution_for_column({cn})', '_fit_columns: `' + _u(d0) + '`')
    dist = d0.targets[0].id
    u0 = lb[1]
    _need(isinstance(u0, ast.Assign) and isinstance(u0.targets[0], ast.Name)
          and _u(u0.value) == f'self._fit_column({cv}, {dist}, {cn})', '_fit_columns: `' + _u(u0) + '`')
    uni = u0.targets[0].id
    apps = {}
    for s in lb[2:]:
        _need(isinstance(s, ast.Expr) and isinstance(s.value, ast.Call) and isinstance(s.value.func, ast.Attribute)
              and s.value.func.attr == 'append' and isinstance(s.value.func.value, ast.Name) and len(s.value.args) == 1
              and not s.value.keywords, '_fit_columns: `' + _u(s) + '`')
        apps[s.value.func.value.id] = _u(s.value.args[0])
    _need(set(apps) == set(accs) and sorted(apps.values()) == sorted([cn, uni]), f'_fit_columns: appends {apps}')
    lab_acc = next(a for a, v in apps.items() if v == cn)
    uni_acc = next(a for a, v in apps.items() if v == uni)
    r = b[3]
    _need(isinstance(r, ast.Return) and _u(r.value) == f'({lab_acc}, {uni_acc})', '_fit_columns: return `' + _u(r) + '`')
    # ---- fit: columns, univariates = self._fit_columns(X); self.columns = columns; self.univariates = univariates
    _, _, g = P.find_method(GAUSS, 'GaussianMultivariate', 'fit')
    decs = [_u(x) for x in g.decorator_list]
    _need(decs == ['check_valid_values'], f'fit decorators {decs}')
    _plain_args(g, ['self', 'X'])
    fb = [_u(s) for s in nolog(_body(g))]
    want = ['X = self._validate_input(X)', 'columns, univariates = self._fit_columns(X)', 'self.columns = columns',
            'self.univariates = univariates', 'self.correlation = self._get_correlation(X)', 'self.fitted = True']
    _need(fb == want, 'fit: statements are ' + ' ;; '.join(fb))
    return f"""
(* ---------- GaussianMultivariate._fit_columns, and fit storing its result in self.columns / self.univariates ---------- *)
Section GmFit.
  Variables label Col Dist Univ : Type.
  Variable get_distribution_for_column : label -> Dist.        (* self._get_distribution_for_column *)
  Variable fit_column : Col -> Dist -> label -> Univ.          (* self._fit_column(column, distribution, column_name) *)

  (* for {cn}, {cv} in X.items(): ...; {lab_acc}.append({cn}); {uni_acc}.append({uni}) *)
  Fixpoint gm_fit_columns_loop (items : list (label * Col)) ({lab_acc} : list label) ({uni_acc} : list Univ)
    : list label * list Univ :=
    match items with
    | [] => ({lab_acc}, {uni_acc})
    | item :: tl =>
        let {cn} := fst item in
        let {cv} := snd item in
        let {dist} := get_distribution_for_column {cn} in
        let {uni} := fit_column {cv} {dist} {cn} in
        gm_fit_columns_loop tl ({lab_acc} ++ [{cn}]) ({uni_acc} ++ [{uni}])
    end.

  Definition gm_fit_columns (X : list (label * Col)) : list label * list Univ :=
    gm_fit_columns_loop X [] [].

  (* fit: columns, univariates = self._fit_columns(X); self.columns = columns; self.univariates = univariates *)
  Definition gm_fit_columns_state (X : list (label * Col)) : list label * list Univ :=
    let columns := fst (gm_fit_columns X) in
    let univariates := snd (gm_fit_columns X) in
    (columns, univariates).
End GmFit.
"""


def generate_scores(ctx):
    """Write Gen_gm_scores.v; returns {piece: None | error}."""
    status, out = {}, SCORES_HEADER
    for name, fn in (('gaussian._transform_to_normal', translate_transform_to_normal),
                     ('gaussian.probability_density/cumulative_distribution+base.log_probability_density', translate_densities)):
        try:
            out += fn()
            status[name] = None
        except Exception as e:                                   # fail-closed
            status[name] = f'{type(e).__name__}: {e}'
            out += f'\n(* {name}: UNSUPPORTED {P.comment_safe(e)} *)\n'
            if name.startswith('gaussian._transform'):
                out += 'Section GmScores.\n  Variables label V S : Type.\n  Variable label_eqb : label -> label -> bool.\n'
            else:
                out += 'End GmScores.\n'
    ctx.write('Gen_gm_scores.v', out)
    return status


def generate_sample(ctx):
    status = {}
    try:
        out = translate_sample()
        status['gaussian._get_normal_samples+sample'] = None
    except Exception as e:
        status['gaussian._get_normal_samples+sample'] = f'{type(e).__name__}: {e}'
        out = ('From Coq Require Import List Bool Arith.\nImport ListNotations.\n'
               f'(* sample: UNSUPPORTED {P.comment_safe(e)} *)\n')
    try:
        out += translate_fit()
        status['gaussian._fit_columns+fit'] = None
    except Exception as e:
        status['gaussian._fit_columns+fit'] = f'{type(e).__name__}: {e}'
        out += f'(* fit: UNSUPPORTED {P.comment_safe(e)} *)\n'
    ctx.write('Gen_gm_sample.v', out)
    return status


# ======================================================================================================
# parser for terms printed by Coq (lists, tuples, constructor applications, strings, numbers)
# ======================================================================================================
class Id(str):
    pass


_TOK = re.compile(r'\s*(?:(\[|\]|\(|\)|;|,)|"((?:[^"]|"")*)"|(-?\d+)|([A-Za-z_][\w\.\']*)|(%[A-Za-z_]+))')


def parse_term(s):
    """-> nested python value: int | Id | ('s', str) | list | tuple('t', items...) | ('@', head, [args])"""
    if s is None:
        return None
    toks, i = [], 0
    s = s.strip()
    while i < len(s):
        m = _TOK.match(s, i)
        if not m:
            raise ValueError('cannot tokenise Coq output at: ' + s[i:i + 40])
        i = m.end()
        if m.group(1):
            toks.append(m.group(1))
        elif m.group(2) is not None:
            toks.append(('s', m.group(2).replace('""', '"')))
        elif m.group(3):
            toks.append(int(m.group(3)))
        elif m.group(4):
            toks.append(Id(m.group(4)))
        # scope annotations are dropped
    pos = [0]

    def peek():
        return toks[pos[0]] if pos[0] < len(toks) else None

    def take():
        t = toks[pos[0]]
        pos[0] += 1
        return t

    def atom():
        t = take()
        if t == '(':
            items = [term()]
            while peek() == ',':
                take()
                items.append(term())
            if take() != ')':
                raise ValueError('expected )')
            return items[0] if len(items) == 1 else ('t',) + tuple(items)
        if t == '[':
            items = []
            if peek() != ']':
                items.append(term())
                while peek() == ';':
                    take()
                    items.append(term())
            if take() != ']':
                raise ValueError('expected ]')
            return items
        if isinstance(t, str) and not isinstance(t, Id):
            raise ValueError(f'unexpected token {t}')
        return t

    def term():
        head = atom()
        args = []
        while peek() is not None and peek() not in (')', ']', ';', ','):
            args.append(atom())
        return ('@', head, args) if args else head
    v = term()
    if pos[0] != len(toks):
        raise ValueError('trailing tokens in Coq output')
    return v


def coq_list(xs):
    return '[' + '; '.join(str(x) for x in xs) + ']'


def coq_rows(rows):
    return '[' + '; '.join(coq_list(r) for r in rows) + ']'


# ======================================================================================================
# model zoo shared by C13 / C01
# ======================================================================================================
def make_table(rng, d, n, const_cols=(), positive=(), labels=None, rho_scale=0.8):
    """Gaussian-copula table with d columns; returns DataFrame"""
    import pandas as pd
    A = rng.normal(size=(d, d))
    C = A @ A.T + 0.3 * np.eye(d)
    s = np.sqrt(np.diag(C))
    C = C / np.outer(s, s)
    C = rho_scale * C + (1 - rho_scale) * np.eye(d)
    z = rng.multivariate_normal(np.zeros(d), C, n)
    cols = {}
    labels = labels or [chr(ord('a') + j) for j in range(d)]
    for j in range(d):
        if j in const_cols:
            cols[labels[j]] = np.full(n, float(np.round(rng.uniform(-5, 5), 2)))
        elif j in positive:
            cols[labels[j]] = np.exp(0.6 * z[:, j] + rng.uniform(-1, 1))
        else:
            cols[labels[j]] = z[:, j] * rng.uniform(0.5, 4) + rng.uniform(-10, 10)
    return pd.DataFrame(cols)


def model_zoo(rng, quick):
    """list of (name, fitted GaussianMultivariate, training DataFrame, info dict).  Marginal configurations:
    default selection, a class, a fully-qualified name, an instance, a per-column dict; constant columns; integer
    labels (fit from an ndarray)."""
    import warnings
    from copulas import univariate as U
    from copulas.multivariate import GaussianMultivariate
    specs = [
        # (name, d, n, const, positive, distribution factory, labels)
        ('d2-gauss-class', 2, 40, (), (), lambda L: U.GaussianUnivariate, None),
        ('d3-default-selection-const', 3, 50, (2,), (1,), lambda L: None, None),
        ('d3-name-gamma-unsorted-labels', 3, 40, (), (0, 1, 2), lambda L: 'copulas.univariate.gamma.GammaUnivariate', ['price', 'amount', 'count']),
        ('d4-dict-mixed', 4, 60, (), (1,), lambda L: {L[0]: U.GaussianKDE, L[1]: U.GammaUnivariate, L[2]: U.UniformUnivariate,
                                                      L[3]: 'copulas.univariate.student_t.StudentTUnivariate'}, ['w', 'b', 'z', 'a']),
        ('d4-instance-uniform-const-first', 4, 30, (0,), (), lambda L: U.UniformUnivariate(), ['k2', 'k10', 'k1', 'k0']),
        ('d5-dict-partial-intlabels', 5, 50, (3,), (4,), lambda L: {L[1]: U.BetaUnivariate, L[4]: U.LogLaplace,
                                                                    L[2]: U.TruncatedGaussian}, 'int'),
        ('d6-gauss-two-const', 6, 40, (1, 4), (), lambda L: U.GaussianUnivariate, ['f', 'b', 'e', 'a', 'd', 'c']),
        # HISTORY on one object: fit(other table, same labels); sample; density; re-fit on the table under test
        ('d3-refit-after-sample', 3, 40, (), (1,), lambda L: U.GaussianUnivariate, ['y', 'x', 'm'], 'refit'),
        ('d4-refit-after-sample-const', 4, 30, (2,), (), lambda L: U.UniformUnivariate, ['q', 'c', 'p', 'b'], 'refit'),
        ('d2-kde-wide-labels', 2, 25, (), (), lambda L: U.GaussianKDE, ['col one', 'z']),
        ('d3-all-const', 3, 12, (0, 1, 2), (), lambda L: U.GaussianUnivariate, None),
    ]
    if not quick:
        specs += [
            ('d5-default-selection', 5, 80, (), (2,), lambda L: None, None),
            ('d6-dict-all-families', 6, 80, (), (1, 5), lambda L: {L[0]: U.GaussianKDE, L[1]: U.GammaUnivariate, L[2]: U.BetaUnivariate,
                                                                   L[3]: U.StudentTUnivariate, L[4]: U.TruncatedGaussian, L[5]: U.LogLaplace}, None),
            ('d3-uniform-class-intlabels', 3, 30, (), (), lambda L: U.UniformUnivariate, 'int'),
            ('d4-name-truncated', 4, 40, (2,), (), lambda L: 'copulas.univariate.truncated_gaussian.TruncatedGaussian', None),
        ]
    out = []
    reps = 1 if quick else 3                         # thorough: every configuration on three different tables
    specs = [(sp[0] if r == 0 else f'{sp[0]}#{r}', sp[1], sp[2] + 7 * r) + tuple(sp[3:7]) + (sp[7] if len(sp) > 7 else None,)
             for r in range(reps) for sp in specs]
    for name, d, n, const, positive, dist, labels, hist in specs:
        lab = list(range(d)) if labels == 'int' else (labels or [chr(ord('a') + j) for j in range(d)])
        df = make_table(rng, d, n, const, positive, labels=[str(x) for x in lab])
        dd = dist(lab)
        with warnings.catch_warnings():
            warnings.simplefilter('ignore')
            m = GaussianMultivariate() if dd is None else GaussianMultivariate(distribution=dd)
            saved = np.random.get_state()
            try:
                np.random.seed(12345)              # Univariate selection may draw from the global generator
                if hist == 'refit':
                    df0 = make_table(np.random.default_rng(d * 1000 + n), d, n + 5, (), (), labels=[str(x) for x in lab], rho_scale=0.95)
                    m.fit(df0)
                    m.sample(6)
                    m.probability_density(df0.iloc[:3])
                    m.fit(df)
                elif labels == 'int':
                    m.fit(df.to_numpy())
                    df.columns = lab
                else:
                    m.fit(df)
            finally:
                np.random.set_state(saved)
        out.append((name, m, df, {'d': d, 'n_train': n, 'const': list(const), 'labels': [repr(x) for x in lab],
                                  'marginals': [type(getattr(u, '_instance', None) or u).__name__ for u in m.univariates]}))
    return out


def is_constant_univariate(u):
    inner = getattr(u, '_instance', None) or u
    return getattr(inner, '_constant_value', None) is not None or getattr(u, '_constant_value', None) is not None


class Patched:
    """context manager: setattr on enter, restore (delete the shadowing instance attribute or put the old value back)
    on exit"""

    def __init__(self, obj, name, value):
        self.obj, self.name, self.value = obj, name, value

    def __enter__(self):
        d = getattr(self.obj, '__dict__', {})
        self.had = self.name in d
        self.old = d.get(self.name) if self.had else None
        setattr(self.obj, self.name, self.value)
        return self

    def __exit__(self, *a):
        if self.had:
            setattr(self.obj, self.name, self.old)
        else:
            try:
                delattr(self.obj, self.name)
            except AttributeError:
                pass
        return False


def all_or_some_perms(d, rng, k):
    if d <= 4:
        return [list(p) for p in itertools.permutations(range(d))]
    out = [list(range(d)), list(range(d))[::-1]]
    while len(out) < k:
        p = [int(x) for x in rng.permutation(d)]
        if p not in out:
            out.append(p)
    return out
