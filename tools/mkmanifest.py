#!/venv/bin/python
"""Regenerates MANIFEST.json from the table below (kept in one place so the manifest is always valid)."""
import json, os
V = os.path.dirname(os.path.dirname(os.path.abspath(__file__)))
TB = ('Trusted: Coq 8.16.1 kernel + vm_compute (no native_compute); stdlib/Coquelicot/Interval axioms as printed by Print Assumptions '
      '(sig_forall_dec, sig_not_dec, functional_extensionality_dep, classic); py2coq translator and numpy denotation (validated by the '
      'interval-certified correspondence); the source-normalisation layer tools/vf/srcnorm.py (a function alpha-equivalent to the committed reference snapshot is read in its reference spelling; selftest over all seeded changes); Python harness; IEEE rounding not modelled in real-number theorems. ')
CHECKS = {
 'C06': dict(
   text='Machine-checked proof (Coq) about the model generated from the current source: boundary conditions, symmetry, 2-increasing, '
        'Frechet bounds, Archimedean generator identity, theta ordering (all three families, all admissible theta, unbounded) and row-wise batch '
        'evaluation; tie = regeneration by py2coq + bridge lemmas re-proved every run + Interval-certified comparison with the implementation.',
   note=TB + 'Gumbel at an exact 0 coordinate (IEEE -inf path) is outside the real-number model (limit theorem only).',
   technique='Coq proof over a py2coq-generated real-number model; bridge re-proved per run; Interval-certified correspondence',
   ref='DESIGN.md section 7, C06'),
}
CHECKS.update({
 'C07': dict(
   text='Machine-checked proof (Coq) about the generated model: partial_derivative = dC/dv, density = d2C/dudv (Coquelicot is_derive), '
        'h in [0,1] and monotone with end values/limits, density positive and symmetric, density integrates to the C-volume over every rectangle '
        '(RInt), log density, row-wise batches; all families, all admissible theta, unbounded; tie = py2coq regeneration + bridge + Interval-certified comparison.',
   note=TB + 'Claimed on the open unit square (checked on [1e-4,1-1e-4]^2); IEEE overflow guards are constant-false in the real model; the unused base-class finite-difference fallback is not modelled.',
   technique='Coq/Coquelicot derivative and integral proofs over a py2coq-generated model; Interval-certified correspondence',
   ref='DESIGN.md section 7, C07'),
 'C08': dict(
   text='Machine-checked proof (Coq): Clayton closed-form inverse (h(ppf(y,v),v)=y, range, monotone in y) for all theta>0; uniqueness of the root for all '
        'three families (h strictly increasing); the generated Brent loop (bracket [EPSILON,1], objective h(x,v)-y, one solve per lane) inverts h for Frank/Gumbel '
        'under an explicit solver hypothesis and a valid lower bracket; element-wise; shortcuts. Correspondence: recorded solver calls + Interval-certified round trip through the generated h.',
   note=TB + 'scipy.optimize.brentq is an oracle (idealised: exact root in a valid bracket); Frank/Gumbel theorems are conditional on h(EPSILON,v) <= y (known finding F17 is the Gumbel corner where it fails).',
   technique='Coq proof over generated model + solver oracle hypothesis; certified round-trip correspondence',
   ref='DESIGN.md section 7, C08'),
 'C10': dict(
   text='Machine-checked proof (Coq): generated compute_theta equals the closed-form calibration and inverts the family tau map (Clayton, Gumbel), refusal of '
        'negative tau / tau=1 (Gumbel); Frank residual handed to least_squares is the Debye tau equation (RInt) and the stored theta is its root under the solver '
        'hypothesis; executable Q versions proved equal to the R versions (Q2R); control skeleton of fit (range check, NaN tau, check_theta) as Model.BivCtl with '
        'refusal/admissibility theorems; full-strength usability refuted with witnesses (tau=0, tau=1). Correspondence: vm_compute of fit_ctl vs real fit on designed/random tables.',
   note=TB + 'kendalltau, least_squares, quad are oracles (captured); Model.BivCtl is hand-written and tied only by the correspondence.',
   technique='Coq proof over generated calibration formulas + hand-written control model with vm_compute correspondence',
   ref='DESIGN.md section 7, C10'),
})
CHECKS.update({
 'C18': dict(
   text='Machine-checked proof (Coq) about a generic-arithmetic model of bisect and chandrupatla (real-number instance): rejection of invalid brackets, '
        'bracket/sign invariant and halving, result inside the bracket within max(tol, w0/2^maxiter)/2 of a root (IVT), lane independence (lane i = scalar run for the '
        'batch iteration count, k1 <= k), chandrupatla invariant (a,b in bracket with sign change, xm in {a,b}), termination accuracy, scalar = one lane; unbounded lanes/iterations. '
        'Tie: the PrimFloat instance of the same Gallina code is executed by vm_compute and must equal copulas.optimize bit for bit (results, brackets, iteration counts).',
   note=TB + 'Model.RootFind is hand-written (correspondence, not translation); theorems are for exact reals; chandrupatla convergence within 50 iterations is not proved.',
   technique='Coq proof over hand-written generic model; bit-exact PrimFloat differential correspondence',
   ref='DESIGN.md section 7, C18'),
})
CHECKS.update({
 'C15': dict(
   text='Machine-checked proof (Coq) about a transcription of the random-state mechanism (decorator, context manager, validation, dataset context blocks): for every '
        'operation history the global generator is preserved (also when the body raises), non-interference between models, advance/write-back, equal seeds equal streams, '
        'dataset determinism and world preservation (induction over op lists, unbounded). Which functions are protected is generated from the AST every run and decided by '
        'vm_compute (all public samplers decorated). Tie: step-by-step trace correspondence on the real decorator with RNG states mapped to (seed,count) tokens; '
        'the property itself is also checked on every real sampler class.',
   note=TB + 'Model.Rng is hand-written (correspondence, not translation); RNG states are abstract tokens; sampler bodies are oracles (k draws, may raise).',
   technique='Coq induction over operation histories on a hand-written state machine; AST-generated decorator facts; trace correspondence',
   ref='DESIGN.md section 7, C15'),
})
CHECKS.update({
 'C09': dict(
   text='Machine-checked proof (Coq) of the deterministic core of conditional-inverse sampling on the generated model: the generated sampler draws v then c and returns '
        '(percent_point(c,v), v) (shape, order, tau guard before any draw); Rosenblatt event {ppf(c,v) <= a} = {c <= h(a,v)} (Clayton for all theta>0; Frank under the solver hypothesis) '
        'and the v-integral of h(a,.) equals the copula increment (RInt, all three families) - hence the output law is the copula given independent uniform draws. '
        'PARTIAL: uniformity/tau/joint-CDF of finite samples are statistical and not theorems; they are only exercised by the witness search at false-alarm level 1e-9.',
   note=TB + 'numpy uniform draws are ideal independent U(0,1) (not a theorem); brentq oracle as in C08.',
   technique='Coq proof (Rosenblatt event + FTC) over generated sampler; certified correspondence with patched draws; statistical oracles only in witness search',
   ref='DESIGN.md section 7, C09'),
})
CHECKS.update({
 'C02': dict(
   text='Machine-checked proof (Coq) about the model generated from _get_correlation/_transform_to_normal: entries are the Pearson correlation of the clipped normal scores, '
        'symmetric, within [-1, 1+EPSILON], unit diagonal for non-constant columns, zero rows for constant columns, positive semi-definite (Gram form, Cauchy-Schwarz over lists), '
        'ridge gives positive definiteness, labels in training order; unbounded in rows/columns. Tie: strict AST translation + bridges re-proved every run + vm_compute certificate that '
        'every entry of the implementation matrix is within 1e-9 of the model on exact rational scores (square-root-free decision proved sound).',
   note=TB + 'norm.ppf, univariate cdf values and np.linalg.cond are oracles (captured); pandas corr semantics (NaN for zero variance) hand-modelled in PearsonDefs and tied by the correspondence.',
   technique='Coq proof (lists over R) over AST-generated model; Q-arithmetic certificate by vm_compute',
   ref='DESIGN.md section 7, C02'),
 'C12': dict(
   text='Machine-checked proof (Coq/mathcomp) that the generated _get_conditional_distribution computes S12 S22^-1 z and the Schur complement (symmetric, PSD, PD) and the completion-of-squares identity behind the conditional law; '
        'label bookkeeping of sample(conditions) as an executable model: fixed columns, all columns in order, back-transform by label, scores labelled by training order. Tie: strict AST translation + bridges + '
        'vm_compute correspondence on exact rationals (captured mean/covariance vs exact Q Gauss-Jordan) for every conditioning subset, dict orders and Series.',
   note=TB + 'np.random.multivariate_normal sampling N(mean, cov) is an oracle assumption (no statistical test); pandas label semantics hand-modelled; MatQ list operations not proved equal to the mathcomp ones (same AST, same translator).',
   technique='Coq/mathcomp proof over AST-generated matrix expressions; executable label model with vm_compute correspondence',
   ref='DESIGN.md section 7, C12'),
 'C05': dict(
   text='Machine-checked proof (Coq) about definitions GENERATED from select_univariate, Univariate.__init__/_select_candidates/fit, get_instance and the GaussianMultivariate column-fitting helpers, proved equal to the '
        'executable model: argmin of the KS statistic over candidates that fit (ties to the earliest, failures/NaN skipped), behaviour when all fail, soundness/completeness of the PARAMETRIC/BOUNDED filters over the '
        'class tree generated from the AST (all 12 filter combinations by vm_compute), explicit lists, per-column configuration, Gaussian fallback, fresh instances. Tie: generation + vm_compute correspondence with scripted and recorded kstest values.',
   note=TB + 'scipy kstest and fits are oracles; class tree extraction simulates the package import order.',
   technique='Coq proof over AST-generated selection logic; vm_compute correspondence with scripted oracles',
   ref='DESIGN.md section 7, C05'),
})
CHECKS.update({
 'C13': dict(
   text='Machine-checked proof (Coq) about definitions generated from _transform_to_normal / probability_density / cumulative_distribution / log_probability_density and proved equal to the executable Scores model: '
        'delegation to the MVN oracle on the normal scores with the fitted correlation, invariance under every column permutation and container (DataFrame, 2-d array, Series, 1-d array), row-wise evaluation, '
        'monotone scores, log pdf = log(pdf), what happens for missing columns. Tie: fail-closed AST shape translation + vm_compute correspondence on opaque tokens (which cdf value of which column lands where, which scipy function with which arguments).',
   note=TB + 'scipy.stats.multivariate_normal pdf/cdf and the univariate cdfs are oracles; monotonicity of the copula CDF reduces to that of the MVN CDF (oracle hypothesis).',
   technique='Coq proof over AST-generated container-normalisation model; token-level vm_compute correspondence',
   ref='DESIGN.md section 7, C13'),
 'C01': dict(
   text='Machine-checked proof (Coq) of the deterministic core: the generated unconditional sampler returns n rows with the training header in order, column j = ppf_j(Phi(Z_j)) with the fit-time pairing, no missing cell, '
        'constant columns reproduced exactly, Galois step ppf(q) <= x <-> q <= cdf(x) for the marginal law (Uniform and constant instances proved end to end), and EXACT equality of Kendall concordance counts / tau between output columns and the normal draw for '
        'strictly increasing marginals. PARTIAL: recovery of generating marginals/correlation "within sampling error" and tau = (2/pi) asin(rho) are statistical/cited and only exercised by the witness search at false-alarm level 1e-9.',
   note=TB + 'np.random.multivariate_normal is an oracle (patched in the correspondence); scipy marginal laws are oracle hypotheses.',
   technique='Coq proof (concordance invariance, schema) over AST-generated sampler; vm_compute correspondence with patched normal draws',
   ref='DESIGN.md section 7, C01'),
 'C20': dict(
   text='Machine-checked proof (Coq) that a may-alias write analysis over an effect language is sound (and exact on call-free programs); effect programs for ~90 public entry points are EXTRACTED from the AST every run and '
        'vm_compute proves an all-false verdict for each, hence arguments are bit-for-bit unchanged for every view/copy oracle; plot figures contain every given row exactly once under the right label (Permutation proof over a model of px.scatter). '
        'Tie: extraction + dynamic correspondence (every entry point called twice with deep-snapshotted arguments of every container kind; observed mutation verdict = model verdict; figures vs Model.Plot).',
   note=TB + 'the extractor and its numpy/pandas alias table are trusted (validated by the verdict correspondence); plotly modelled as one trace per colour value; callbacks assumed not to write their arguments; the 1-d functions (_generate_1d_plot, dist_1d, compare_1d), PlotConfig colours and the label / colour-map constants are generated by tools/vf/plot1dgen.py and proved equal to the extended Model.Plot (Props/C20_1d.v); plotly 7.1 installed here has no figure_factory.create_distplot, so the 1-d correspondence runs against a transcription of plotly 5\'s function (evidence: plot1d_backend).',
   technique='Coq-proved sound effect analysis on AST-extracted programs; scatter/compare pipeline generated from the AST with bridge theorems to Model.Plot (C20_bridge_*); snapshot-based dynamic correspondence',
   ref='DESIGN.md section 7, C20'),
})
CHECKS.update({
 'C16': dict(
   text='Machine-checked proof (Coq) about an executable model of the tree/vine construction (all tau matrices incl. ties and NaN, all tie-break/set orders): number of trees max 1 (min (d-1) t) and edge counts, '
        'first tree star / Hamiltonian path / spanning tree with the greedy cut property, k-th trees star / path / spanning tree of the constraint graph, child conditioned/conditioning sets, proximity '
        '(iff at levels 2-3), full regular-vine property for centre and direct vines and for regular vines up to the default truncation 3, a proved-sound executable validator, plus limits found by the proofs '
        '(escape branch diverges, NaN breaks greediness). Tie: the real Tree classes are driven with synthetic tau matrices (exhaustive rank orderings for d<=4 in thorough) with numpy/set orders replayed, and real '
        'VineCopula.fit outputs are replayed and validated by vm_compute; every edge copula is what select_copula returned and admissible.',
   note=TB + 'Model.Vine is tied to the source by proof for its edge kernel (check_constraint, identify_eds_ing, is_adjacent, sort_edge, get_child_edge, get_constraints: tools/vf/vinegen.py, C16_bridge_*, coq/Lib/PySet.v) and for the CONSTRUCTION of centre and direct vines (_sort_tau_by_y, get_anchor, Center/Direct _build_first_tree / _build_kth_tree, Tree.fit, get_tree, train_vine, the tree-count bound of VineCopula.fit: tools/vf/vinebuildgen.py, coq/Lib/PyMat.v, Props/C16_build.v: C16_bridge_sort_tau_by_y .. C16_bridge_vine_fit, for all inputs); the Prim loops of RegularTree (tools/vf/vineregulargen.py, coq/Lib/PyPrim.v, Props/C16_regular.v: C16_bridge_regular_first / _kth, and the dispatch / Tree.fit / train_vine / VineCopula.fit bridges for all three vine types under sel_in, sel_some, perm_fun on the abstracted set order); Tree.get_tau_matrix (symbolic cells), VineCopula.__init__ and the attribute skeleton of VineCopula.fit (tools/vf/vinefitgen.py, coq/Lib/PyVineFit.v, Model/VineFitState.v, Props/C16_fit.v; finding F8 as theorems about the generated functions); the numeric taus stay an oracle input; numpy argsort tie order and Python set order are replayed as recorded data; general proximity beyond tree 3 and no-pair-twice for regular vines are only validated per run, not proved.',
   technique='Coq proof over a graph-construction model; edge kernel and the construction of all three vine types incl. train_vine generated from the AST on every run and proved equal to the model (bridge theorems); replayed vm_compute correspondence + proved-sound validator on implementation output',
   ref='DESIGN.md section 7, C16'),
})
CHECKS.update({
 'C11': dict(
   text='Machine-checked proof (Coq) about definitions GENERATED from select_copula / _compute_empirical / _compute_tail / _compute_candidates and proved equal to the executable SelectCopula model: the result is one of at most three '
        'candidates, each carrying the shared Kendall tau and its family calibration (re-using the generated compute_theta of C10), Clayton/Gumbel present iff admissible, non-positive tau gives Frank, first-maximum argmax over rank scores, '
        'the z_right[k] indexing is always defined, the result is a function of X. Tie: generation + bridges + vm_compute correspondence (real data with captured tau/Frank theta/diagonal CDF values; substituted-oracle runs of the full pipeline). '
        'PARTIAL: recovery of the generating family (>= 70% of seeds) is statistical and not decided (report-only table in the thorough tier).',
   note=TB + 'kendalltau, least_squares and the candidates cumulative_distribution values are oracles (captured); full-grid evaluation of the model in Q is infeasible, so the pipeline is checked piecewise on real data and as a whole on a coarse dyadic grid.',
   technique='Coq proof over AST-generated selection pipeline; piecewise vm_compute correspondence',
   ref='DESIGN.md section 7, C11'),
})
CHECKS.update({
 'C19': dict(
   text='Machine-checked proof (Coq) about executable life-cycle state machines (ScipyModel families incl. TruncatedGaussian and GaussianKDE, the selecting wrapper, Bivariate, GaussianMultivariate): fit purity over arbitrary fit histories '
        '(full for every family except GaussianKDE whose cached sample size refutes it, with witness), every query and sample of an unfitted model raises NotFittedError and touches no generator (full for the bivariate classes since the F23 fix; vines since F30), multivariate validation leaves the state unchanged, get_instance returns a fresh configured object, '
        'definition-before-use of np.empty cells in vines (refuted with witness); AST-generated facts (store_args classes, validated fits, check_fit-first methods, guard shapes, fit writes) decided by vm_compute. '
        'Tie: random and scripted fit/query histories on the real classes vs vm_compute of the machine over captured oracle tables; refit-vs-fresh and misuse oracles on every class incl. vines.',
   note=TB + 'Model.Lifecycle is tied to the source by proof, layer by layer, each generated from the AST on every run and proved equal to the model for all states and inputs: the control skeleton of Univariate/ScipyModel (unictlgen.py, C19_bridge_*), the family hooks of the eight classes, GaussianKDE._get_model/_set_params/pdf/logpdf/sample and the selecting wrapper (uniwrapgen.py, C19_bridge2_*), GaussianMultivariate / Multivariate fit, queries, to_dict/from_dict (gmctlgen.py, coq/Lib/PyGM.v, C19_bridge_gm_*), copulas/utils.py get_instance / get_qualified_name / store_args / check_valid_values (utilsgen.py, C19u_bridge_*), the Bivariate constructor / queries / serialisation (bivlifegen.py, coq/Lib/PyBivLife.v, C14_bridge_*); ten modelling errors of the hand-written models were found by bridges that did not go through and corrected; the control of GaussianKDE.cumulative_distribution / percent_point / _get_bounds, the four _constant_* methods and the constructors composed with the generated @store_args (kdeqgen.py, coq/Lib/PyKdeQ.v, C19_bridge3_*); save / load in C14 (C14_rest.v); the KS loop of select_univariate is an oracle; scipy fits/optimisers are oracle tables captured per run; datasets are abstracted to (identity, constant?, range, size).',
   technique='Coq induction over fit histories on life-cycle state machines; the control skeletons of the univariate, wrapper, Gaussian-multivariate and bivariate classes and of copulas/utils.py generated from the AST with bridge theorems (C19_bridge_*, C19_bridge2_*, C19_bridge3_*, C19_bridge_gm_*, C19u_bridge_*, C14_bridge_*); AST facts; history correspondence',
   ref='DESIGN.md section 7, C19'),
})
CHECKS.update({
 'C03': dict(
   text='Machine-checked proof (Coq) about definitions generated from the univariate classes (closed-form fits, constant detection and the degenerate-method table, ScipyModel delegation tables, GaussianKDE bounds / weighted-sum CDF / percent_point routing and bracket): '
        'constant data gives the point mass (unit-step CDF, constant quantile and sample), UniformUnivariate satisfies every clause end to end (monotone CDF, limits, density integrates to CDF increments, both round trips, log density), '
        'KDE CDF monotone with the exact defect -delta below the lower bound, routing of boundary probabilities, bracket validity iff u <= F(upper), quantile existence/uniqueness/monotonicity composed with the C18 bisect theorems, wrapper delegation, log density dispatch. '
        'PARTIAL: the distribution-function laws of the six scipy-delegated families are oracle hypotheses (all four queries provably pass the same stored parameters to the same scipy distribution).',
   note=TB + 'scipy.stats distributions, ndtr and gaussian_kde are oracles (captured); Q mirror of the branch logic proved equal to the R model through Q2R.',
   technique='Coq/Coquelicot proof over AST-generated univariate model; Q-mirror vm_compute + Interval correspondence on captured oracle values',
   ref='DESIGN.md section 7, C03'),
 'C04': dict(
   text='Machine-checked proof (Coq) about the generated _fit methods: Gaussian loc = mean, scale = population std, and this pair maximises the Gaussian likelihood (uniquely); Uniform loc = min, scale = range, tight; the start values/keys handed to and stored from the scipy MLE fits; '
        'TruncatedGaussian support = [min,max] (user bounds honoured, data-derived otherwise, per fit); the GaussianKDE object is built from exactly (dataset or resample, bw_method, weights). '
        'PARTIAL: closeness to the generating law within a DKW band (and the 80% clause) is statistical: search only, at false-alarm level 1e-9.',
   note=TB + 'scipy fit/fmin_slsqp/gaussian_kde are oracles with captured traces.',
   technique='Coq proof over AST-generated estimators; captured-trace correspondence; DKW oracle in witness search only',
   ref='DESIGN.md section 7, C04'),
 'C17': dict(
   text='Machine-checked proof (Coq) about an executable data-plane model of the vine (symbolic provenance terms for conditional CDF columns, likelihood recursion over a partial uni_matrix, row sampler): each edge copula is selected on get_conditional_uni of its parents and its U are the h-functions of those inputs; '
        'provenance F(L|D), F(R|D) proved for trees 1-2 of every vine, for every centre vine and for all hereditarily-good edges, REFUTED with witnesses from tree 3 on for direct/regular vines; likelihood = sum of log pair densities and a function of (model,u) when every read is defined (def-before-use refuted in the bad case); '
        'the sampler assigns every variable exactly once (DFS over a connected tree), sample shape, two-column reduction with the documented top-1% collapse, clipping strictly inside (0,1) with generated constants. '
        'PARTIAL: reproduction of marginals/tau within sampling error is statistical (search only).',
   note=TB + 'Model.VineData is tied to the source by proof for get_conditional_uni (vinegen.py, C17_bridge_get_conditional_uni), Tree.prepare_next_tree, Edge / Tree / VineCopula.get_likelihood and the two inner loops of _sample_row (tools/vf/vinedatagen.py, coq/Lib/PyCols.v, Props/C17_data.v: C17_bridge_prepare_next_tree, _Edge_get_likelihood, _Tree_get_likelihood, _VineCopula_get_likelihood, _sample_find_edge, _sample_level_step; the F10b reads of unwritten cells are theorems about the GENERATED likelihood); and the WHOLE of _sample_row, VineCopula.sample and Tree.get_adjacent_matrix (tools/vf/vinesamplegen.py, coq/Lib/PyVineSample.v, Props/C17_sample.v: C17_bridge_sample_row, C17_bridge_sample, C17_gen_sample_shape) (correspondence by content-tagged arrays on the real classes); select_copula and h are symbolic oracles.',
   technique='Coq proof over a symbolic data-flow model; prepare_next_tree, the likelihood recursion and the inner sampler loops generated from the AST and proved equal to the model (bridge theorems); tag-based vm_compute correspondence; generated clip constants',
   ref='DESIGN.md section 7, C17'),
})
CHECKS.update({
 'C14': dict(
   text='Machine-checked proof (Coq) about executable serialisation models over a JSON-like value type: to_dict o from_dict o to_dict = to_dict and behaviour preservation for every fitted state of each univariate family (constant and non-constant), the wrapper (reconstructs as the selected family), '
        'bivariate copulas and GaussianMultivariate, idempotence under n round trips (induction), type dispatch of the generic entry points (incl. subclass entry points, and Multivariate.from_dict on vine dicts since the F38 fix), JSON-safety of univariate/bivariate/Gaussian dicts and non-safety of vine dicts (Python set under D), '
        'vine/tree/edge round trip with re-linking of previous_tree and parents; refutations with witnesses for the open defects (KDE options, StudentT constant, nested KDE dataset, std underflow, independence dispatch). AST-generated key sets (emitted/consumed keys per class) decided by vm_compute. '
        'Tie: real round trips (dict, JSON text, pickle/JSON files, repeated 1..3 times) checked inside Coq against the model on exact rationals; bitwise behaviour oracles on the real classes.',
   note=TB + 'the Bivariate side of the model (CopulaTypes, __new__/__init__/subclasses, to_dict, from_dict, save/load, the ten queries of the five classes) is generated from the AST by tools/vf/bivlifegen.py and proved equal to Model.Lifecycle (Props/C14_biv.v: C14_bridge_*; connecting lemmas to the C10 model BivCtl); the univariate / Gaussian-multivariate to_dict / from_dict are generated and bridged in C19 (C19_bridge_to_dict / _from_dict, C19_bridge_gm_to_dict / _from_dict); Edge.to_dict, Tree.to_dict / from_dict and VineCopula._deserialize_trees are generated by tools/vf/vineserialgen.py and proved equal to Spec/VineSerial (Props/C14_vine.v: C14_bridge_Edge_to_dict .. C14_bridge_deserialize_trees); Edge.__init__ / from_dict, VineCopula.to_dict / from_dict, Univariate / Multivariate save / load by tools/vf/serialrestgen.py (Props/C14_rest.v, pickle-file model Spec/PickleFiles.v; round trips proved on the generated pairs); pickle/json are oracles (deep copy incl. instance overrides / identity on JSON-able values); large vine payload arrays enter the model as injective tokens and are compared bitwise in the harness.',
   technique='Coq induction over round-trip counts on serialisation models; bivariate constructor / serialisation / query skeleton generated from the AST with bridge theorems (C14_bridge_*); AST key facts; kernel-checked dict correspondence',
   ref='DESIGN.md section 7, C14'),
})
NOT_YET = {}
def main():
    props = [json.loads(l) for l in open(os.path.join(V, 'properties.jsonl'))]
    checks, na = [], []
    for p in props:
        pid = p['id']
        if pid in CHECKS:
            c = CHECKS[pid]
            checks.append({
                'property_id': pid,
                'quick_cmd': f'./check {pid} --tier quick',
                'thorough_cmd': f'./check {pid} --tier thorough',
                'evidence_file': f'/verif/evidence/{pid}.json',
                'replay_cmd_template': f'./check {pid} --replay {{path}}',
                'engine': 'coq-proof',
                'level_claimed': {'category': 'proof', 'text': c['text'], 'design_ref': c['ref']},
                'level_note': c['note'],
                'technique': c['technique'],
            })
        else:
            na.append({'property_id': pid, 'reason': NOT_YET.get(pid, 'check not built yet in this round (work in progress; see DESIGN.md section 10)')})
    m = {
        'version': 1,
        'setup_cmd': 'cd /verif/coq && coq_makefile -f _CoqProject -o Makefile && timeout 3000 make -j16',
        'hooks': {'guard': 'SDV_DEV_COPULAS_VERIF', 'enable': 'no source hooks: all instrumentation is monkeypatching from the harness process (env SDV_DEV_COPULAS_VERIF=1 is set by ./check but nothing in /repo reads it)',
                  'baseline_off_cmd': 'cd /repo && /venv/bin/python -m pytest -ra -q -p no:cacheprovider --timeout=900 --continue-on-collection-errors',
                  'source_commits': [], 'add_only': True},
        'engines': [{'name': 'coq-proof', 'path': '/verif/check', 'serves_properties': [c['property_id'] for c in checks],
                     'kind_free_text': 'Coq 8.16.1 proofs over models generated from /repo by tools/vf/py2coq.py or hand-written with a differential correspondence check (tools/vf)'}],
        'checks': checks,
        'not_applicable': na,
        'notes': 'Single driver ./check <id> --tier quick|thorough. See DESIGN.md.',
    }
    json.dump(m, open(os.path.join(V, 'MANIFEST.json'), 'w'), indent=1)
if __name__ == '__main__':
    main()
