#!/bin/bash
# tools/try_seed.sh <seed_dir> <check ids...> : verify demo on pristine/mutant, run the checks against a scratch copy with the patch applied
d=$1; shift
name=$(basename $d)
M=/tmp/mut_$name
rm -rf $M; cp -r /repo $M; rm -rf $M/.git
( cd / && PYTHONPATH=/repo timeout 600 /venv/bin/python -W ignore $d/demo.py >/dev/null 2>&1 ); p=$?
( cd $M && patch -p1 -s < $d/patch.diff ) || { echo "$name: PATCH FAILED"; rm -rf $M; exit 2; }
( cd / && PYTHONPATH=$M timeout 600 /venv/bin/python -W ignore $d/demo.py >/dev/null 2>&1 ); m=$?
echo "$name: demo pristine rc=$p mutant rc=$m"
for id in "$@"; do
  out=$(cd /verif && VERIF_REPO=$M ./check $id 2>&1); r=$?
  echo "  $id rc=$r $(echo "$out" | grep -c '^VIOLATION') violation lines; $(echo "$out" | tail -1)"
  echo "$out" | grep '^VIOLATION' | head -3 | while read l; do f=$(echo $l | sed 's/.*replay=\([^ ]*\).*/\1/'); /venv/bin/python -c "
import json,sys; b=json.load(open('$f')); print('     ', b['key'][:90], '|', b['what'][:160].replace(chr(10),' '))"; done
done
rm -rf $M
