#!/bin/bash
# Runs every registered quick (or thorough) check on /repo and reports; used before committing evidence.
# usage: tools/run_all.sh [quick|thorough] [ids...]
cd "$(dirname "$0")/.."
tier=${1:-quick}; shift
ids="$@"
if [ -z "$ids" ]; then ids=$(/venv/bin/python -c "import json;print(' '.join(c['property_id'] for c in json.load(open('MANIFEST.json'))['checks']))"); fi
if [ -n "$(git -C /repo status --porcelain)" ]; then echo "WARNING: /repo has uncommitted changes"; fi
rc=0
for id in $ids; do
  s=$(date +%s)
  out=$(./check $id --tier $tier 2>&1); r=$?
  e=$(( $(date +%s) - s ))
  echo "$id rc=$r ${e}s $(echo "$out" | grep -c '^VIOLATION') violations, $(echo "$out" | grep -c '^KNOWN-FINDING') known; $(echo "$out" | tail -1)"
  echo "$out" | grep '^VIOLATION' | head -5
  [ $r -ne 0 ] && rc=1
done
exit $rc
