#!/bin/bash
# tools/try_harmless.sh <dir with patch.diff> [ids...] : apply a behaviour-preserving patch to a scratch copy of /repo and run the
# quick checks against it (8 at a time); every alarm is a robustness cost of the translators (a false alarm in the sense of DESIGN 0)
d=$1; shift
name=$(basename $d)
M=/tmp/hm_$name
rm -rf $M; cp -r /repo $M; rm -rf $M/.git
( cd $M && patch -p1 -s --no-backup-if-mismatch < $d/patch.diff ) || { echo "$name: PATCH FAILED"; rm -rf $M; exit 2; }
ids="$@"
if [ -z "$ids" ]; then ids=$(/venv/bin/python -c "import json;print(' '.join(c['property_id'] for c in json.load(open('/verif/MANIFEST.json'))['checks']))"); fi
mkdir -p /tmp/hm_out/$name
echo $ids | tr ' ' '\n' | xargs -P ${HM_PAR:-16} -I{} bash -c "cd /verif && VERIF_REPO=$M ./check {} > /tmp/hm_out/$name/{}.log 2>&1; echo \$? > /tmp/hm_out/$name/{}.rc"
for id in $ids; do
  rc=$(cat /tmp/hm_out/$name/$id.rc)
  if [ "$rc" != "0" ]; then
    echo "$name $id rc=$rc $(grep -c '^VIOLATION' /tmp/hm_out/$name/$id.log) violations"
    grep '^VIOLATION' /tmp/hm_out/$name/$id.log | head -4 | while read l; do f=$(echo $l | sed 's/.*replay=\([^ ]*\).*/\1/'); /venv/bin/python -c "
import json,sys; b=json.load(open('$f')); print('     ', b['key'][:100], '|', b['what'][:200].replace(chr(10),' '))" 2>/dev/null; done
  fi
done
echo "$name done"
rm -rf $M
